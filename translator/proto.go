package main

// Proto.lean: descriptor tables (messages, enums, services) re-read from proto/sentinel/**/*.proto with a
// hand-written parser for the small subset of proto3 the hub uses.  Everything else is refused.

import (
	"fmt"
	"io/fs"
	"os"
	"path/filepath"
	"regexp"
	"sort"
	"strconv"
	"strings"
)

// refuseProto reports a proto construct outside the accepted subset and exits with status 3.
func refuseProto(file string, line int, format string, a ...any) {
	fmt.Fprintf(os.Stderr, "translator: REFUSED %s:%d: %s\n", file, line, fmt.Sprintf(format, a...))
	os.Exit(3)
}

/* ---------- lexer ---------- */

const (
	ptEOF = iota
	ptIdent
	ptInt
	ptString
	ptSym
)

type ptok struct {
	kind int
	text string // identifier, decimal digits, unquoted string contents, or the symbol
	line int
}

func (t ptok) String() string {
	switch t.kind {
	case ptEOF:
		return "end of file"
	case ptString:
		return "string " + strconv.Quote(t.text)
	case ptInt:
		return "integer " + t.text
	case ptIdent:
		return "`" + t.text + "`"
	}
	return "`" + t.text + "`"
}

func isIdentStart(c byte) bool {
	return c == '_' || 'a' <= c && c <= 'z' || 'A' <= c && c <= 'Z'
}
func isDigit(c byte) bool { return '0' <= c && c <= '9' }

var decimalRE = regexp.MustCompile(`^(0|[1-9][0-9]*)$`)

// protoLex splits a file into tokens; comments are dropped.
func protoLex(file string, src []byte) []ptok {
	var toks []ptok
	line := 1
	for i := 0; i < len(src); {
		c := src[i]
		switch {
		case c == '\n':
			line++
			i++
		case c == ' ' || c == '\t' || c == '\r':
			i++
		case c == '/' && i+1 < len(src) && src[i+1] == '/':
			for i < len(src) && src[i] != '\n' {
				i++
			}
		case c == '/' && i+1 < len(src) && src[i+1] == '*':
			start := line
			i += 2
			for {
				if i+1 >= len(src) {
					refuseProto(file, start, "unterminated block comment")
				}
				if src[i] == '*' && src[i+1] == '/' {
					i += 2
					break
				}
				if src[i] == '\n' {
					line++
				}
				i++
			}
		case isIdentStart(c):
			j := i
			for j < len(src) && (isIdentStart(src[j]) || isDigit(src[j])) {
				j++
			}
			toks = append(toks, ptok{ptIdent, string(src[i:j]), line})
			i = j
		case isDigit(c):
			j := i
			for j < len(src) && (isIdentStart(src[j]) || isDigit(src[j])) {
				j++
			}
			text := string(src[i:j])
			if j < len(src) && src[j] == '.' {
				refuseProto(file, line, "floating-point literal `%s.…`", text)
			}
			if !decimalRE.MatchString(text) {
				refuseProto(file, line, "numeric literal `%s` is not a plain decimal integer", text)
			}
			toks = append(toks, ptok{ptInt, text, line})
			i = j
		case c == '"' || c == '\'':
			var b strings.Builder
			j := i + 1
			for {
				if j >= len(src) || src[j] == '\n' {
					refuseProto(file, line, "unterminated string literal")
				}
				if src[j] == c {
					break
				}
				if src[j] == '\\' {
					if j+1 < len(src) && (src[j+1] == '\\' || src[j+1] == '"' || src[j+1] == '\'') {
						b.WriteByte(src[j+1])
						j += 2
						continue
					}
					refuseProto(file, line, "string escape sequence other than \\\\ \\\" \\'")
				}
				if src[j] < 0x20 || src[j] == 0x7f {
					refuseProto(file, line, "control character in string literal")
				}
				b.WriteByte(src[j])
				j++
			}
			toks = append(toks, ptok{ptString, b.String(), line})
			i = j + 1
		case strings.IndexByte(";={}[](),.<>-:", c) >= 0:
			toks = append(toks, ptok{ptSym, string(c), line})
			i++
		default:
			refuseProto(file, line, "unexpected character %q", string(rune(c)))
		}
	}
	return append(toks, ptok{ptEOF, "", line})
}

/* ---------- syntax tree ---------- */

type protoOpt struct {
	name string // `go_package`, `(gogoproto.nullable)`, `(google.api.http).get`
	val  ptok   // identifier, string or integer (text of a negative integer starts with '-')
	line int
}

type protoField struct {
	line     int
	repeated bool
	typ      string // as written; a leading '.' means fully qualified
	name     string
	num      int
	opts     []protoOpt
}

type protoMsg struct {
	file   *protoFile
	line   int
	full   string // package-qualified name; also the scope its field types are resolved in
	fields []*protoField
}

type protoEnumValue struct {
	name string
	num  int64
}

type protoEnum struct {
	line   int
	full   string
	values []protoEnumValue
}

type protoRPC struct {
	line      int
	name      string
	req, resp string // as written
}

type protoSvc struct {
	line int
	full string
	rpcs []*protoRPC
}

type protoImport struct {
	path string
	line int
}

type protoFile struct {
	label   string // name used in messages: proto/<path>
	path    string // import path: path below the proto root, slash separated
	pkg     string
	imports []protoImport
	msgs    []*protoMsg // source order, an outer message before the messages nested in it
	enums   []*protoEnum
	svcs    []*protoSvc
}

func (f *protoFile) hasImport(p string) bool {
	for _, i := range f.imports {
		if i.path == p {
			return true
		}
	}
	return false
}

/* ---------- parser ---------- */

type protoParser struct {
	f       *protoFile
	toks    []ptok
	pos     int
	extUses []protoOpt // options named by an extension: their defining file must be imported
}

func (p *protoParser) peek() ptok { return p.toks[p.pos] }
func (p *protoParser) next() ptok {
	t := p.toks[p.pos]
	if t.kind != ptEOF {
		p.pos++
	}
	return t
}
func (p *protoParser) refuse(line int, format string, a ...any) {
	refuseProto(p.f.label, line, format, a...)
}
func (p *protoParser) isSym(s string) bool {
	t := p.peek()
	return t.kind == ptSym && t.text == s
}
func (p *protoParser) sym(s, ctx string) ptok {
	t := p.next()
	if t.kind != ptSym || t.text != s {
		p.refuse(t.line, "%s: expected `%s`, found %v", ctx, s, t)
	}
	return t
}
func (p *protoParser) ident(ctx string) ptok {
	t := p.next()
	if t.kind != ptIdent {
		p.refuse(t.line, "%s: expected an identifier, found %v", ctx, t)
	}
	return t
}
func (p *protoParser) str(ctx string) ptok {
	t := p.next()
	if t.kind != ptString {
		p.refuse(t.line, "%s: expected a string literal, found %v", ctx, t)
	}
	if n := p.peek(); n.kind == ptString {
		p.refuse(n.line, "%s: adjacent string literals (implicit concatenation)", ctx)
	}
	return t
}

// fullIdent reads `a.b.c`.
func (p *protoParser) fullIdent(ctx string) string {
	s := p.ident(ctx).text
	for p.isSym(".") {
		p.next()
		s += "." + p.ident(ctx).text
	}
	return s
}

// typeName reads `[.]a.b.c`.
func (p *protoParser) typeName(ctx string) string {
	if p.isSym(".") {
		p.next()
		return "." + p.fullIdent(ctx)
	}
	return p.fullIdent(ctx)
}

// option reads `name = constant` (without the leading `option` keyword or the trailing `;`).
func (p *protoParser) option(ctx string) protoOpt {
	t := p.peek()
	o := protoOpt{line: t.line}
	if p.isSym("(") {
		p.next()
		o.name = "(" + p.typeName(ctx+" option name") + ")"
		p.sym(")", ctx+" option name")
		for p.isSym(".") {
			p.next()
			o.name += "." + p.ident(ctx+" option name").text
		}
	} else {
		o.name = p.fullIdent(ctx + " option name")
	}
	p.sym("=", ctx+" option "+o.name)
	v := p.peek()
	switch {
	case v.kind == ptIdent:
		o.val = p.next()
	case v.kind == ptString:
		o.val = p.str(ctx + " option " + o.name)
	case v.kind == ptInt:
		o.val = p.next()
	case v.kind == ptSym && v.text == "-":
		p.next()
		n := p.next()
		if n.kind != ptInt {
			p.refuse(n.line, "%s option %s: expected an integer after `-`, found %v", ctx, o.name, n)
		}
		o.val = ptok{ptInt, "-" + n.text, n.line}
	case v.kind == ptSym && v.text == "{":
		p.refuse(v.line, "%s option %s: aggregate option value `{ … }`", ctx, o.name)
	default:
		p.refuse(v.line, "%s option %s: expected a constant, found %v", ctx, o.name, v)
	}
	return o
}

var (
	gogoAllRE    = regexp.MustCompile(`^\(gogoproto\.[a-z_]+_all\)$`)
	gogoSimpleRE = regexp.MustCompile(`^\(gogoproto\.[a-z_]+\)$`)
	httpOptRE    = regexp.MustCompile(`^\(google\.api\.http\)(\.[a-z_]+)*$`)
)

// needExt checks that the file defining an option extension is imported.
func (p *protoParser) needExt(o protoOpt) {
	var imp string
	switch {
	case strings.HasPrefix(o.name, "(gogoproto."):
		imp = "gogoproto/gogo.proto"
	case strings.HasPrefix(o.name, "(google.api."):
		imp = "google/api/annotations.proto"
	case strings.HasPrefix(o.name, "(cosmos_proto."):
		imp = "cosmos_proto/cosmos.proto"
	default:
		return
	}
	if !p.f.hasImport(imp) {
		p.refuse(o.line, "option %s used without `import %q`", o.name, imp)
	}
}

var protoExternal = map[string]struct {
	pkg  string
	msgs []string
}{
	"gogoproto/gogo.proto":                       {"gogoproto", nil},
	"google/api/annotations.proto":               {"google.api", nil},
	"google/protobuf/timestamp.proto":            {"google.protobuf", []string{"Timestamp"}},
	"google/protobuf/duration.proto":             {"google.protobuf", []string{"Duration"}},
	"google/protobuf/any.proto":                  {"google.protobuf", []string{"Any"}},
	"cosmos/base/v1beta1/coin.proto":             {"cosmos.base.v1beta1", []string{"Coin"}},
	"cosmos/base/query/v1beta1/pagination.proto": {"cosmos.base.query.v1beta1", []string{"PageRequest", "PageResponse"}},
}

func protoParse(label, path string, src []byte, exists func(string) bool) *protoFile {
	f := &protoFile{label: label, path: path}
	p := &protoParser{f: f, toks: protoLex(label, src)}

	// syntax = "proto3"; must come first
	if t := p.peek(); t.kind != ptIdent || t.text != "syntax" {
		p.refuse(t.line, "file does not start with `syntax = \"proto3\";` (found %v)", t)
	}
	p.next()
	p.sym("=", "syntax statement")
	if s := p.str("syntax statement"); s.text != "proto3" {
		p.refuse(s.line, "syntax %q (only \"proto3\")", s.text)
	}
	p.sym(";", "syntax statement")

	havePkg := false
	for {
		t := p.next()
		if t.kind == ptEOF {
			break
		}
		if t.kind != ptIdent {
			if t.kind == ptSym && t.text == ";" {
				p.refuse(t.line, "empty statement `;`")
			}
			p.refuse(t.line, "unexpected %v at file level", t)
		}
		if !havePkg && (t.text == "message" || t.text == "enum" || t.text == "service") {
			p.refuse(t.line, "`%s` before the `package` statement", t.text)
		}
		switch t.text {
		case "syntax":
			p.refuse(t.line, "second `syntax` statement")
		case "package":
			if havePkg {
				p.refuse(t.line, "second `package` statement")
			}
			havePkg = true
			f.pkg = p.fullIdent("package statement")
			p.sym(";", "package statement")
		case "import":
			if n := p.peek(); n.kind == ptIdent && (n.text == "public" || n.text == "weak") {
				p.refuse(n.line, "`import %s`", n.text)
			}
			s := p.str("import statement")
			p.sym(";", "import statement")
			if _, ok := protoExternal[s.text]; !ok {
				if !strings.HasPrefix(s.text, "sentinel/") {
					p.refuse(s.line, "import %q (not in the list of known external files)", s.text)
				}
				if !exists(s.text) {
					p.refuse(s.line, "import %q: no such file under the proto root", s.text)
				}
			}
			if s.text == path {
				p.refuse(s.line, "import %q: file imports itself", s.text)
			}
			if f.hasImport(s.text) {
				p.refuse(s.line, "import %q listed twice", s.text)
			}
			f.imports = append(f.imports, protoImport{s.text, s.line})
		case "option":
			o := p.option("file")
			p.sym(";", "file option "+o.name)
			switch {
			case o.name == "go_package":
				if o.val.kind != ptString {
					p.refuse(o.line, "file option go_package: value is not a string")
				}
			case gogoAllRE.MatchString(o.name):
				if o.val.kind != ptIdent || o.val.text != "true" && o.val.text != "false" {
					p.refuse(o.line, "file option %s: value %v is not true/false", o.name, o.val)
				}
				p.extUses = append(p.extUses, o)
			default:
				p.refuse(o.line, "file option %s", o.name)
			}
		case "message":
			p.message(f.pkg, t.line)
		case "enum":
			p.enum(f.pkg, t.line)
		case "service":
			p.service(t.line)
		case "extend":
			p.refuse(t.line, "`extend` block")
		default:
			p.refuse(t.line, "unexpected `%s` at file level", t.text)
		}
	}
	if !havePkg {
		p.refuse(p.peek().line, "file without `package` statement")
	}
	// options may legally precede the imports they need: check once the import list is complete
	for _, o := range p.extUses {
		p.needExt(o)
	}
	return f
}

func qualify(scope, name string) string {
	if scope == "" {
		return name
	}
	return scope + "." + name
}

func (p *protoParser) message(scope string, line int) {
	name := p.ident("message")
	m := &protoMsg{file: p.f, line: line, full: qualify(scope, name.text)}
	p.f.msgs = append(p.f.msgs, m)
	ctx := "message " + m.full
	p.sym("{", ctx)
	for {
		t := p.peek()
		if t.kind == ptSym && t.text == "}" {
			p.next()
			break
		}
		if t.kind == ptEOF {
			p.refuse(t.line, "%s: missing `}`", ctx)
		}
		if t.kind == ptSym && t.text == ";" {
			p.refuse(t.line, "%s: empty statement `;`", ctx)
		}
		if t.kind == ptSym && t.text == "." {
			p.field(m, false)
			continue
		}
		if t.kind != ptIdent {
			p.refuse(t.line, "%s: unexpected %v", ctx, t)
		}
		switch t.text {
		case "option":
			p.next()
			o := p.option(ctx)
			p.sym(";", ctx+" option "+o.name)
			if !gogoSimpleRE.MatchString(o.name) {
				p.refuse(o.line, "%s: message option %s (only (gogoproto.*) options)", ctx, o.name)
			}
			p.extUses = append(p.extUses, o)
		case "message":
			p.next()
			p.message(m.full, t.line)
		case "enum":
			p.next()
			p.enum(m.full, t.line)
		case "oneof", "reserved", "optional", "required", "extensions", "extend", "group", "stream":
			p.refuse(t.line, "%s: `%s`", ctx, t.text)
		case "map":
			if n := p.toks[p.pos+1]; n.kind == ptSym && n.text == "<" {
				p.refuse(t.line, "%s: `map<…>` field", ctx)
			}
			p.field(m, false)
		case "repeated":
			p.next()
			if n := p.peek(); n.kind == ptIdent && n.text == "group" {
				p.refuse(n.line, "%s: `group`", ctx)
			}
			if n := p.peek(); n.kind == ptIdent && n.text == "map" {
				if n2 := p.toks[p.pos+1]; n2.kind == ptSym && n2.text == "<" {
					p.refuse(n.line, "%s: `map<…>` field", ctx)
				}
			}
			p.field(m, true)
		default:
			p.field(m, false)
		}
	}
}

func (p *protoParser) field(m *protoMsg, repeated bool) {
	ctx := "message " + m.full
	fl := &protoField{line: p.peek().line, repeated: repeated}
	fl.typ = p.typeName(ctx + " field type")
	nm := p.next()
	if nm.kind != ptIdent {
		p.refuse(nm.line, "%s: after field type `%s`: expected the field name, found %v", ctx, fl.typ, nm)
	}
	fl.name = nm.text
	ctx += " field " + fl.name
	p.sym("=", ctx)
	n := p.next()
	if n.kind != ptInt {
		p.refuse(n.line, "%s: expected the field number, found %v", ctx, n)
	}
	v, err := strconv.ParseInt(n.text, 10, 64)
	if err != nil || v < 1 || v >= 536870912 {
		p.refuse(n.line, "%s: field number %s outside [1, 536870911]", ctx, n.text)
	}
	if 19000 <= v && v <= 19999 {
		p.refuse(n.line, "%s: field number %s in the range reserved for the protobuf implementation", ctx, n.text)
	}
	fl.num = int(v)
	if p.isSym("[") {
		p.next()
		for {
			o := p.option(ctx)
			for _, q := range fl.opts {
				if q.name == o.name {
					p.refuse(o.line, "%s: option %s given twice", ctx, o.name)
				}
			}
			fl.opts = append(fl.opts, o)
			p.extUses = append(p.extUses, o)
			if p.isSym(",") {
				p.next()
				continue
			}
			p.sym("]", ctx+" options")
			break
		}
	}
	p.sym(";", ctx)
	for _, g := range m.fields {
		if g.name == fl.name {
			p.refuse(fl.line, "%s: duplicate field name (first at line %d)", ctx, g.line)
		}
		if g.num == fl.num {
			p.refuse(fl.line, "%s: duplicate field number %d (field %s at line %d)", ctx, fl.num, g.name, g.line)
		}
	}
	m.fields = append(m.fields, fl)
}

func (p *protoParser) enum(scope string, line int) {
	name := p.ident("enum")
	e := &protoEnum{line: line, full: qualify(scope, name.text)}
	p.f.enums = append(p.f.enums, e)
	ctx := "enum " + e.full
	p.sym("{", ctx)
	for {
		t := p.next()
		if t.kind == ptSym && t.text == "}" {
			break
		}
		if t.kind == ptEOF {
			p.refuse(t.line, "%s: missing `}`", ctx)
		}
		if t.kind == ptSym && t.text == ";" {
			p.refuse(t.line, "%s: empty statement `;`", ctx)
		}
		if t.kind != ptIdent {
			p.refuse(t.line, "%s: unexpected %v", ctx, t)
		}
		if t.text == "reserved" && !p.isSym("=") {
			p.refuse(t.line, "%s: `reserved`", ctx)
		}
		if t.text == "option" && !p.isSym("=") {
			o := p.option(ctx)
			p.sym(";", ctx+" option "+o.name)
			if o.name == "allow_alias" {
				p.refuse(o.line, "%s: `allow_alias`", ctx)
			}
			if !gogoSimpleRE.MatchString(o.name) {
				p.refuse(o.line, "%s: enum option %s (only (gogoproto.*) options)", ctx, o.name)
			}
			p.extUses = append(p.extUses, o)
			continue
		}
		// VALUE = [-]N [ (gogoproto.enumvalue_customname) = "…" ] ;
		vctx := ctx + " value " + t.text
		p.sym("=", vctx)
		neg := false
		if p.isSym("-") {
			p.next()
			neg = true
		}
		n := p.next()
		if n.kind != ptInt {
			p.refuse(n.line, "%s: expected a number, found %v", vctx, n)
		}
		v, err := strconv.ParseInt(n.text, 10, 64)
		if neg {
			v = -v
		}
		if err != nil || v < -2147483648 || v > 2147483647 {
			p.refuse(n.line, "%s: number outside int32", vctx)
		}
		if p.isSym("[") {
			p.next()
			seen := false
			for {
				o := p.option(vctx)
				if o.name != "(gogoproto.enumvalue_customname)" || o.val.kind != ptString {
					p.refuse(o.line, "%s: enum value option %s (only (gogoproto.enumvalue_customname) = \"…\")", vctx, o.name)
				}
				if seen {
					p.refuse(o.line, "%s: option %s given twice", vctx, o.name)
				}
				seen = true
				p.extUses = append(p.extUses, o)
				if p.isSym(",") {
					p.next()
					continue
				}
				p.sym("]", vctx+" options")
				break
			}
		}
		p.sym(";", vctx)
		for _, w := range e.values {
			if w.name == t.text {
				p.refuse(t.line, "%s: duplicate value name", vctx)
			}
			if w.num == v {
				p.refuse(t.line, "%s: number %d already used by %s (aliases need `allow_alias`, which is refused)", vctx, v, w.name)
			}
		}
		if len(e.values) == 0 && v != 0 {
			p.refuse(t.line, "%s: the first value of a proto3 enum must be 0", vctx)
		}
		e.values = append(e.values, protoEnumValue{t.text, v})
	}
	if len(e.values) == 0 {
		p.refuse(line, "%s: enum without values", ctx)
	}
}

func (p *protoParser) service(line int) {
	name := p.ident("service")
	s := &protoSvc{line: line, full: qualify(p.f.pkg, name.text)}
	p.f.svcs = append(p.f.svcs, s)
	ctx := "service " + s.full
	p.sym("{", ctx)
	for {
		t := p.next()
		if t.kind == ptSym && t.text == "}" {
			break
		}
		if t.kind == ptEOF {
			p.refuse(t.line, "%s: missing `}`", ctx)
		}
		if t.kind == ptSym && t.text == ";" {
			p.refuse(t.line, "%s: empty statement `;`", ctx)
		}
		if t.kind != ptIdent {
			p.refuse(t.line, "%s: unexpected %v", ctx, t)
		}
		switch t.text {
		case "rpc":
		case "option":
			p.refuse(t.line, "%s: service-level option", ctx)
		case "stream":
			p.refuse(t.line, "%s: `stream`", ctx)
		default:
			p.refuse(t.line, "%s: unexpected `%s` (only `rpc`)", ctx, t.text)
		}
		r := &protoRPC{line: t.line, name: p.ident(ctx + " rpc").text}
		rctx := ctx + " rpc " + r.name
		for _, q := range s.rpcs {
			if q.name == r.name {
				p.refuse(t.line, "%s: duplicate rpc name", rctx)
			}
		}
		arg := func() string {
			p.sym("(", rctx)
			if n := p.peek(); n.kind == ptIdent && n.text == "stream" {
				if n2 := p.toks[p.pos+1]; !(n2.kind == ptSym && (n2.text == ")" || n2.text == ".")) {
					p.refuse(n.line, "%s: `stream`", rctx)
				}
			}
			ty := p.typeName(rctx)
			p.sym(")", rctx)
			return ty
		}
		r.req = arg()
		if k := p.next(); k.kind != ptIdent || k.text != "returns" {
			p.refuse(k.line, "%s: expected `returns`, found %v", rctx, k)
		}
		r.resp = arg()
		if p.isSym("{") {
			p.next()
			for !p.isSym("}") {
				k := p.next()
				if k.kind != ptIdent || k.text != "option" {
					p.refuse(k.line, "%s: unexpected %v in the rpc body (only `option (google.api.http)… = …;`)", rctx, k)
				}
				o := p.option(rctx)
				p.sym(";", rctx+" option "+o.name)
				if !httpOptRE.MatchString(o.name) {
					p.refuse(o.line, "%s: rpc option %s (only (google.api.http))", rctx, o.name)
				}
				if o.val.kind != ptString {
					p.refuse(o.line, "%s: rpc option %s: value is not a string", rctx, o.name)
				}
				p.extUses = append(p.extUses, o)
			}
			p.next()
		} else {
			p.sym(";", rctx)
		}
		s.rpcs = append(s.rpcs, r)
	}
}

/* ---------- symbols and name resolution (protobuf scoping rules) ---------- */

const (
	psPackage = iota
	psMessage
	psEnum
	psService
	psEnumValue
)

type protoSym struct {
	kind  int
	files map[string]bool // import paths of the files declaring it (several only for packages)
	where string          // label:line of the declaration, for messages
}

func (s *protoSym) isType() bool      { return s.kind == psMessage || s.kind == psEnum }
func (s *protoSym) isAggregate() bool { return s.kind != psEnumValue }

type protoSyms map[string]*protoSym

func (t protoSyms) addPackage(pkg, file string) {
	for p := pkg; p != ""; {
		s := t[p]
		if s == nil {
			s = &protoSym{kind: psPackage, files: map[string]bool{}}
			t[p] = s
		} else if s.kind != psPackage {
			refuseProto("proto/"+file, 1, "package %s collides with the declaration at %s", p, s.where)
		}
		s.files[file] = true
		if i := strings.LastIndexByte(p, '.'); i >= 0 {
			p = p[:i]
		} else {
			p = ""
		}
	}
}

func (t protoSyms) add(f *protoFile, line int, name string, kind int) {
	if s := t[name]; s != nil {
		if s.kind == psPackage {
			refuseProto(f.label, line, "declaration of %s collides with a package of that name", name)
		}
		refuseProto(f.label, line, "%s is already declared at %s", name, s.where)
	}
	t[name] = &protoSym{kind: kind, files: map[string]bool{f.path: true}, where: fmt.Sprintf("%s:%d", f.label, line)}
}

// visible: the symbol is declared by the file itself or by a file it imports directly.
func (s *protoSym) visible(f *protoFile) bool {
	if s.files[f.path] {
		return true
	}
	for _, i := range f.imports {
		if s.files[i.path] {
			return true
		}
	}
	return false
}

func parentScope(s string) string {
	if i := strings.LastIndexByte(s, '.'); i >= 0 {
		return s[:i]
	}
	return ""
}

// resolve follows descriptor.cc (LookupSymbolNoPlaceholder): the first component of the name is searched from
// the innermost scope outward; once found as an aggregate, the whole name must exist in that scope.
func (t protoSyms) resolve(f *protoFile, line int, ctx, scope, name string) (string, *protoSym) {
	look := func(full string) *protoSym {
		if s := t[full]; s != nil && s.visible(f) {
			return s
		}
		return nil
	}
	fail := func(why string) {
		hint := ""
		// where would the plain "try every enclosing scope" rule have found it, ignoring imports?
		for s := scope; ; s = parentScope(s) {
			if g := t[qualify(s, strings.TrimPrefix(name, "."))]; g != nil && g.isType() {
				if !g.visible(f) {
					hint = fmt.Sprintf(" (%s is declared at %s, a file that is not imported directly)", qualify(s, strings.TrimPrefix(name, ".")), g.where)
				}
				break
			}
			if s == "" || strings.HasPrefix(name, ".") {
				break
			}
		}
		refuseProto(f.label, line, "%s: type `%s` %s%s", ctx, name, why, hint)
	}
	if strings.HasPrefix(name, ".") {
		s := look(name[1:])
		if s == nil || !s.isType() {
			fail("is not a visible message or enum")
		}
		return name[1:], s
	}
	first, compound := name, false
	if i := strings.IndexByte(name, '.'); i >= 0 {
		first, compound = name[:i], true
	}
	for sc := scope; ; sc = parentScope(sc) {
		if s := look(qualify(sc, first)); s != nil {
			if compound {
				if s.isAggregate() {
					full := qualify(sc, name)
					r := look(full)
					if r == nil || !r.isType() {
						fail(fmt.Sprintf("does not resolve: `%s` is found as %s, but %s is not a visible message or enum", first, qualify(sc, first), full))
					}
					return full, r
				}
			} else if s.isType() {
				return qualify(sc, first), s
			}
		}
		if sc == "" {
			break
		}
	}
	fail("does not resolve to a message or enum")
	return "", nil
}

/* ---------- fields → descriptors ---------- */

var protoScalars = map[string]string{
	"uint64": ".uint64", "int64": ".int64", "int32": ".int32", "bool": ".bool", "string": ".string", "bytes": ".bytes",
}

var protoRefusedScalars = map[string]bool{
	"double": true, "float": true, "uint32": true, "sint32": true, "sint64": true,
	"fixed32": true, "fixed64": true, "sfixed32": true, "sfixed64": true,
}

var protoCustomTypes = map[string]string{
	"cosmossdk.io/math.Int":                  ".sdkInt",
	"github.com/cosmos/cosmos-sdk/types.Int": ".sdkInt",
	"cosmossdk.io/math.LegacyDec":            ".sdkDec",
	"github.com/cosmos/cosmos-sdk/types.Dec": ".sdkDec",
}

// recorded (wire-irrelevant) string options: option name → key in `opts`
var protoRecordedOpts = map[string]string{
	"(gogoproto.customtype)":           "customtype",
	"(gogoproto.castrepeated)":         "castrepeated",
	"(gogoproto.customname)":           "customname",
	"(gogoproto.moretags)":             "moretags",
	"(gogoproto.jsontag)":              "jsontag",
	"(cosmos_proto.accepts_interface)": "accepts_interface",
	"(cosmos_proto.scalar)":            "scalar",
}

// leanField renders one field as a Lean `Field` structure instance.
func leanField(t protoSyms, m *protoMsg, fl *protoField) string {
	file := m.file.label
	ctx := fmt.Sprintf("message %s field %s", m.full, fl.name)
	var (
		nullable             *bool
		customtype           string
		stdtime, stdduration bool
		embed, castrepeated  bool
		opts                 []string
	)
	for _, o := range fl.opts {
		boolVal := func() bool {
			if o.val.kind != ptIdent || o.val.text != "true" && o.val.text != "false" {
				refuseProto(file, o.line, "%s: option %s: value %v is not true/false", ctx, o.name, o.val)
			}
			return o.val.text == "true"
		}
		onlyTrue := func() {
			if !boolVal() {
				refuseProto(file, o.line, "%s: option %s = false (only `= true`)", ctx, o.name)
			}
		}
		switch o.name {
		case "(gogoproto.nullable)":
			b := boolVal()
			nullable = &b
		case "(gogoproto.stdtime)":
			onlyTrue()
			stdtime = true
		case "(gogoproto.stdduration)":
			onlyTrue()
			stdduration = true
		case "(gogoproto.embed)":
			onlyTrue()
			embed = true
			opts = append(opts, fmt.Sprintf("(%s, %s)", leanString("embed"), leanString("true")))
		default:
			key, ok := protoRecordedOpts[o.name]
			if !ok {
				refuseProto(file, o.line, "%s: field option %s", ctx, o.name)
			}
			if o.val.kind != ptString {
				refuseProto(file, o.line, "%s: option %s: value %v is not a string", ctx, o.name, o.val)
			}
			if key == "customtype" {
				customtype = o.val.text
				if _, ok := protoCustomTypes[customtype]; !ok {
					refuseProto(file, o.line, "%s: customtype %q", ctx, customtype)
				}
			}
			if key == "castrepeated" {
				castrepeated = true
			}
			opts = append(opts, fmt.Sprintf("(%s, %s)", leanString(key), leanString(o.val.text)))
		}
	}

	kind, isMsg := "", false
	switch {
	case protoRefusedScalars[fl.typ]:
		refuseProto(file, fl.line, "%s: scalar type `%s` (the model has no constructor for it)", ctx, fl.typ)
	case protoScalars[fl.typ] != "":
		kind = ".scalar " + protoScalars[fl.typ]
		if fl.repeated && fl.typ != "string" && fl.typ != "bytes" {
			refuseProto(file, fl.line, "%s: `repeated %s` (packed encoding is not modelled)", ctx, fl.typ)
		}
	default:
		full, s := t.resolve(m.file, fl.line, ctx, m.full, fl.typ)
		if s.kind == psEnum {
			kind = ".scalar (.enum " + leanString(full) + ")"
			if fl.repeated {
				refuseProto(file, fl.line, "%s: `repeated` enum %s (packed encoding is not modelled)", ctx, full)
			}
		} else {
			isMsg = true
			std := ".none"
			if stdtime && stdduration {
				refuseProto(file, fl.line, "%s: both (gogoproto.stdtime) and (gogoproto.stdduration)", ctx)
			}
			if stdtime || stdduration {
				opt, want := "(gogoproto.stdtime)", "google.protobuf.Timestamp"
				std = ".time"
				if stdduration {
					opt, want, std = "(gogoproto.stdduration)", "google.protobuf.Duration", ".duration"
				}
				if full != want {
					refuseProto(file, fl.line, "%s: %s on type %s (needs %s)", ctx, opt, full, want)
				}
				if fl.repeated {
					refuseProto(file, fl.line, "%s: %s on a repeated field", ctx, opt)
				}
				if nullable == nil || *nullable {
					refuseProto(file, fl.line, "%s: %s without (gogoproto.nullable) = false", ctx, opt)
				}
			}
			kind = ".message " + leanString(full) + " " + std
		}
	}
	if !isMsg && (stdtime || stdduration) {
		refuseProto(file, fl.line, "%s: (gogoproto.stdtime)/(gogoproto.stdduration) on non-message type `%s`", ctx, fl.typ)
	}
	if embed && (!isMsg || fl.repeated) {
		refuseProto(file, fl.line, "%s: (gogoproto.embed) on a field that is not a singular message", ctx)
	}
	if castrepeated && !fl.repeated {
		refuseProto(file, fl.line, "%s: (gogoproto.castrepeated) on a field that is not repeated", ctx)
	}
	if customtype != "" {
		if fl.typ != "string" {
			refuseProto(file, fl.line, "%s: customtype %q on type `%s` (only `string`)", ctx, customtype, fl.typ)
		}
		if fl.repeated {
			refuseProto(file, fl.line, "%s: customtype %q on a repeated field", ctx, customtype)
		}
		if nullable == nil || *nullable {
			refuseProto(file, fl.line, "%s: customtype %q without (gogoproto.nullable) = false", ctx, customtype)
		}
		kind = ".scalar " + protoCustomTypes[customtype]
	} else if !isMsg && nullable != nil {
		refuseProto(file, fl.line, "%s: (gogoproto.nullable) on scalar type `%s` without customtype", ctx, fl.typ)
	}

	var b strings.Builder
	fmt.Fprintf(&b, "{ num := %d, name := %s, kind := %s", fl.num, leanString(fl.name), kind)
	if fl.repeated {
		b.WriteString(", repeated := true")
	}
	if isMsg {
		fmt.Fprintf(&b, ", nullable := %v", nullable == nil || *nullable)
	}
	if len(opts) > 0 {
		b.WriteString(", opts := [" + strings.Join(opts, ", ") + "]")
	}
	b.WriteString(" }")
	return b.String()
}

/* ---------- Proto.lean ---------- */

// genProto parses every *.proto below the proto root (default <repo>/proto; the environment variable
// TRANSLATOR_PROTO_ROOT overrides the directory) and renders Proto.lean.
func genProto() string {
	root := os.Getenv("TRANSLATOR_PROTO_ROOT")
	if root == "" {
		root = filepath.Join(repo, "proto")
	}
	var paths []string
	err := filepath.WalkDir(root, func(p string, d fs.DirEntry, err error) error {
		if err != nil {
			return err
		}
		if !d.IsDir() && strings.HasSuffix(p, ".proto") {
			rel, err := filepath.Rel(root, p)
			if err != nil {
				return err
			}
			paths = append(paths, filepath.ToSlash(rel))
		}
		return nil
	})
	if err != nil {
		die(err)
	}
	sort.Strings(paths)
	if len(paths) == 0 {
		refuseProto("proto", 0, "no *.proto file under %s", root)
	}
	have := map[string]bool{}
	for _, p := range paths {
		have[p] = true
	}
	var files []*protoFile
	for _, p := range paths {
		if !strings.HasPrefix(p, "sentinel/") {
			refuseProto("proto/"+p, 0, "proto file outside proto/sentinel/")
		}
		src, err := os.ReadFile(filepath.Join(root, filepath.FromSlash(p)))
		if err != nil {
			die(err)
		}
		files = append(files, protoParse("proto/"+p, p, src, func(q string) bool { return have[q] }))
	}

	// symbol table: external stubs, then the hub's declarations
	syms := protoSyms{}
	extPaths := make([]string, 0, len(protoExternal))
	for p := range protoExternal {
		extPaths = append(extPaths, p)
	}
	sort.Strings(extPaths)
	for _, p := range extPaths {
		e := protoExternal[p]
		syms.addPackage(e.pkg, p)
		for _, m := range e.msgs {
			syms[e.pkg+"."+m] = &protoSym{kind: psMessage, files: map[string]bool{p: true}, where: p}
		}
	}
	for _, f := range files {
		syms.addPackage(f.pkg, f.path)
	}
	for _, f := range files {
		for _, m := range f.msgs {
			syms.add(f, m.line, m.full, psMessage)
		}
		for _, e := range f.enums {
			syms.add(f, e.line, e.full, psEnum)
			for _, v := range e.values { // enum values are siblings of their enum
				syms.add(f, e.line, qualify(parentScope(e.full), v.name), psEnumValue)
			}
		}
		for _, s := range f.svcs {
			syms.add(f, s.line, s.full, psService)
		}
	}

	var msgs, enums, svcs []string
	for _, f := range files {
		for _, m := range f.msgs {
			flds := append([]*protoField(nil), m.fields...)
			sort.SliceStable(flds, func(i, j int) bool { return flds[i].num < flds[j].num })
			rows := make([]string, len(flds))
			for i, fl := range flds {
				rows[i] = "\n    " + leanField(syms, m, fl)
			}
			msgs = append(msgs, fmt.Sprintf("  ⟨%s, [%s]⟩", leanString(m.full), strings.Join(rows, ",")))
		}
		for _, e := range f.enums {
			vs := make([]string, len(e.values))
			for i, v := range e.values {
				vs[i] = fmt.Sprintf("(%s, %d)", leanString(v.name), v.num)
			}
			enums = append(enums, fmt.Sprintf("  ⟨%s, [%s]⟩", leanString(e.full), strings.Join(vs, ", ")))
		}
		for _, s := range f.svcs {
			rs := make([]string, len(s.rpcs))
			for i, r := range s.rpcs {
				ctx := fmt.Sprintf("service %s rpc %s", s.full, r.name)
				scope := s.full // the method's own name is stripped first: search starts in the service
				req, rs1 := syms.resolve(f, r.line, ctx+" request", scope, r.req)
				resp, rs2 := syms.resolve(f, r.line, ctx+" response", scope, r.resp)
				if rs1.kind != psMessage {
					refuseProto(f.label, r.line, "%s: request type %s is not a message", ctx, req)
				}
				if rs2.kind != psMessage {
					refuseProto(f.label, r.line, "%s: response type %s is not a message", ctx, resp)
				}
				rs[i] = fmt.Sprintf("\n    ⟨%s, %s, %s⟩", leanString(r.name), leanString(req), leanString(resp))
			}
			svcs = append(svcs, fmt.Sprintf("  ⟨%s, [%s]⟩", leanString(s.full), strings.Join(rs, ",")))
		}
	}

	var b strings.Builder
	b.WriteString("/- GENERATED from proto/sentinel/**/*.proto by /verif/translator; do not edit. -/\n")
	b.WriteString("import Hub.SDK.ProtoWire\nnamespace Hub.Generated.Proto\nopen Hub.SDK.ProtoWire\n\n")
	list := func(doc, name, ty string, xs []string) {
		fmt.Fprintf(&b, "/-- %s -/\ndef %s : List %s := [", doc, name, ty)
		if len(xs) > 0 {
			b.WriteString("\n" + strings.Join(xs, ",\n") + "\n")
		}
		b.WriteString("]\n\n")
	}
	list(fmt.Sprintf("%d messages of %d files.", len(msgs), len(files)), "messages", "MsgDesc", msgs)
	list(fmt.Sprintf("%d enums.", len(enums)), "enums", "EnumDesc", enums)
	list(fmt.Sprintf("%d services.", len(svcs)), "services", "ServiceDesc", svcs)
	b.WriteString("/-- Descriptor environment: the hand-written stubs of imported messages, then the hub's messages. -/\n")
	b.WriteString("def env : Env := stubs ++ messages\n\n")
	b.WriteString("/-- Model bytes for one line of the differential probe (see `runProtoProbeWith`). -/\n")
	b.WriteString("def runProtoProbe (line : String) : String := runProtoProbeWith env line\n\n")
	b.WriteString("/-- Verdict for one line of the decode probe (see `runProtoDecodeProbeWith`). -/\n")
	b.WriteString("def runProtoDecodeProbe (line : String) : String := runProtoDecodeProbeWith env line\n\n")
	b.WriteString("end Hub.Generated.Proto\n")
	return b.String()
}
