package main

// Emitters of Status.lean, Coin.lean and Bandwidth.lean.

import (
	"fmt"
	"go/ast"
	"go/token"
	"math/big"
	"sort"
	"strconv"
	"strings"
)

const banner = "by /verif/translator; do not edit. -/\n"

// funcs translates every function of a file in source order, except the explicit skip list.
func (p *pkgInfo) funcsOf(f *ast.File, skip map[string]bool) (out string, skipped []string) {
	for _, d := range f.Decls {
		if fd, ok := d.(*ast.FuncDecl); ok && skip[fd.Name.Name] {
			skipped = append(skipped, fd.Name.Name)
		} else if ok {
			out += "\n" + p.translateFunc(fd).String()
		}
	}
	return out, skipped
}

// varSpecs lists the package-level `name = value` variable specs of a file in source order.
func varSpecs(file string, f *ast.File) (names []string, values []ast.Expr) {
	for _, d := range f.Decls {
		if g, ok := d.(*ast.GenDecl); ok && g.Tok == token.VAR {
			for _, s := range g.Specs {
				vs := s.(*ast.ValueSpec)
				if len(vs.Names) != 1 || len(vs.Values) != 1 || vs.Type != nil {
					refuse(file, "", vs, "package variable must be `name = value`: %s", kind(vs))
				}
				names, values = append(names, vs.Names[0].Name), append(values, vs.Values[0])
			}
		}
	}
	return
}

// genStatus emits the enum (constants and name/value tables of the .pb.go) and the functions of status.go.
func genStatus(goFile, pbFile, enum string) string {
	pb := parse(pbFile)
	var names []string
	var nums []uint64
	var nameTab, valueKeys, valueList []string
	valueTab := map[string]string{}
	typeOK := false
	for _, d := range pb.Decls {
		g, ok := d.(*ast.GenDecl)
		if !ok {
			continue
		}
		for _, s := range g.Specs {
			switch s := s.(type) {
			case *ast.TypeSpec:
				typeOK = typeOK || (s.Name.Name == enum && isIdent(s.Type, "int32"))
			case *ast.ValueSpec:
				switch {
				case g.Tok == token.CONST && isIdent(s.Type, enum):
					if len(s.Names) != 1 || len(s.Values) != 1 {
						refuse(pbFile, "", s, "enum constant must be `Name %s = n`", enum)
					}
					names, nums = append(names, s.Names[0].Name), append(nums, intLit(pbFile, "", s.Values[0]))
				case g.Tok == token.VAR && len(s.Names) == 1 && (s.Names[0].Name == enum+"_name" || s.Names[0].Name == enum+"_value"):
					lit, ok := s.Values[0].(*ast.CompositeLit)
					if !ok {
						refuse(pbFile, "", s, "expected a map literal: %s", kind(s))
					} else if _, isMap := lit.Type.(*ast.MapType); !isMap {
						refuse(pbFile, "", s, "expected a map literal: %s", kind(s))
					}
					for _, e := range lit.Elts {
						kv := e.(*ast.KeyValueExpr)
						if s.Names[0].Name == enum+"_name" {
							nameTab = append(nameTab, fmt.Sprintf("(%d, %s)", intLit(pbFile, "", kv.Key), goString(pbFile, kv.Value)))
						} else {
							valueKeys = append(valueKeys, rawString(pbFile, kv.Key))
							valueTab[valueKeys[len(valueKeys)-1]] = fmt.Sprintf("(%s, %d)", goString(pbFile, kv.Key), intLit(pbFile, "", kv.Value))
						}
					}
				}
			}
		}
	}
	if !typeOK || len(names) == 0 || nameTab == nil || valueKeys == nil {
		refuse(pbFile, "", nil, "need `type %s int32`, its constants, %s_name and %s_value", enum, enum, enum)
	}
	sort.Strings(valueKeys) // Go map literal: the order is not meaningful; sorted by key string
	for _, k := range valueKeys {
		valueList = append(valueList, valueTab[k])
	}
	var b strings.Builder
	b.WriteString("/- GENERATED from " + goFile + " and " + pbFile + " " + banner + "namespace Hub.Generated\n\ninductive " + enum + " where\n")
	for _, n := range names {
		b.WriteString("  | " + n + "\n")
	}
	b.WriteString("  deriving Repr, DecidableEq, Inhabited\n\nnamespace " + enum + "\n\ndef toInt32 : " + enum + " → Int\n")
	for i, n := range names {
		fmt.Fprintf(&b, "  | .%s => %d\n", n, nums[i])
	}
	b.WriteString("\ndef ofInt32 : Int → Option " + enum + "\n")
	for i, n := range names {
		fmt.Fprintf(&b, "  | %d => some .%s\n", nums[i], n)
	}
	b.WriteString("  | _ => none\n\n")
	fmt.Fprintf(&b, "/-- `%s_name` (jsonpb prints an enum by this table). -/\ndef %s_name : List (Int × _root_.String) :=\n  [%s]\n\n", enum, enum, strings.Join(nameTab, ", "))
	fmt.Fprintf(&b, "/-- `%s_value` (jsonpb parses an enum string by this table). -/\ndef %s_value : List (_root_.String × Int) :=\n  [%s]\n", enum, enum, strings.Join(valueList, ", "))
	f := parse(goFile)
	p := newPkg(goFile, f)
	for _, n := range names {
		p.enums[n] = enum
	}
	fns, _ := p.funcsOf(f, nil)
	return b.String() + fns + "\nend " + enum + "\nend Hub.Generated\n"
}

func goString(file string, e ast.Expr) string { return leanString(rawString(file, e)) }

func rawString(file string, e ast.Expr) string {
	if l, ok := e.(*ast.BasicLit); ok && l.Kind == token.STRING {
		if s, err := strconv.Unquote(l.Value); err == nil {
			return s
		}
	}
	refuse(file, "", e, "expected a string literal, got %s", kind(e))
	return ""
}

// genConsts translates the package-level Int constants (`sdkmath.NewInt(n)`, `a.Mul(b)`) of a file.  The
// values are computed; a product that needs more than 256 bits would panic at Go init time and is refused.
func genConsts(file string) (names []string, lean string) {
	f := parse(file)
	imp := imports(f)
	vals := map[string]*big.Int{}
	var ev func(e ast.Expr) (*big.Int, string, bool)
	ev = func(e ast.Expr) (*big.Int, string, bool) {
		switch e := e.(type) {
		case *ast.Ident:
			if v, ok := vals[e.Name]; ok {
				return v, e.Name, true
			}
		case *ast.CallExpr:
			sel, ok := e.Fun.(*ast.SelectorExpr)
			if !ok || len(e.Args) != 1 {
				break
			}
			if id, ok := sel.X.(*ast.Ident); ok && imp[id.Name] == mathPkg && sel.Sel.Name == "NewInt" {
				n := intLit(file, "", e.Args[0])
				return new(big.Int).SetUint64(n), strconv.FormatUint(n, 10), true
			} else if sel.Sel.Name == "Mul" {
				x, xs, _ := ev(sel.X)
				y, ys, atom := ev(e.Args[0])
				return new(big.Int).Mul(x, y), xs + " * " + paren(ys, atom), false
			}
		}
		refuse(file, "", e, "unsupported constant expression %s", kind(e))
		return nil, "", false
	}
	ns, vs := varSpecs(file, f)
	for i, n := range ns {
		v, s, _ := ev(vs[i])
		if v.BitLen() > 256 {
			refuse(file, "", vs[i], "constant %s overflows 256 bits", n)
		}
		vals[n] = v
		lean += fmt.Sprintf("/-- `types.%s = %s` -/\ndef %s : SInt := %s\n", n, src(vs[i]), n, s)
	}
	return ns, lean
}

func genCoin(file string, consts []string, constLean string) string {
	f := parse(file)
	p := newPkg(file, f)
	for _, n := range consts {
		p.ext[modulePath()+"/types."+n] = val{s: n, t: "SInt", atom: true}
	}
	fns, _ := p.funcsOf(f, nil)
	return "import Hub.SDK.Coins\n/- GENERATED from " + file + " (and the constants of types/bandwidth.go) " + banner +
		"namespace Hub.Generated\nopen Hub.SDK\n\n" + constLean + fns + "\nend Hub.Generated\n"
}

var bandwidthSkip = map[string]bool{"IsAnyNil": true, "NewBandwidthFromInt64": true}

func genBandwidth(goFile, pbFile, name string) string {
	pb := parse(pbFile)
	p := newPkg(goFile, pb) // imports of the .pb.go while reading the struct
	var fields []binder
	for _, d := range pb.Decls {
		g, ok := d.(*ast.GenDecl)
		if !ok || g.Tok != token.TYPE {
			continue
		}
		for _, s := range g.Specs {
			st, ok := s.(*ast.TypeSpec).Type.(*ast.StructType)
			if s.(*ast.TypeSpec).Name.Name != name || !ok {
				continue
			}
			for _, fl := range st.Fields.List {
				for _, n := range fl.Names {
					fields = append(fields, binder{n.Name, p.goType("struct "+name, fl.Type)})
				}
				if len(fl.Names) == 0 {
					refuse(pbFile, "struct "+name, fl, "embedded field")
				}
			}
		}
	}
	if fields == nil {
		refuse(pbFile, "", nil, "struct %s not found", name)
	}
	f := parse(goFile)
	p.imp = imports(f)
	p.structs[name] = fields
	fns, skipped := p.funcsOf(f, bandwidthSkip)
	vars, _ := varSpecs(goFile, f)
	var b strings.Builder
	b.WriteString("import Hub.SDK.Math\n/- GENERATED from " + goFile + " (struct from " + pbFile + ") " + banner +
		"namespace Hub.Generated\nopen Hub.SDK\n\nstructure " + name + " where\n")
	for _, fl := range fields {
		b.WriteString("  " + fl.name + " : " + fl.ty + "\n")
	}
	b.WriteString("  deriving Repr, DecidableEq, Inhabited\n\nnamespace " + name + "\n" + fns + "\nend " + name + "\n")
	fmt.Fprintf(&b, "\n/- skipped (explicit skip list; no nil / int64 in the model): %s\n   package variables emitted in Coin.lean: %s -/\n",
		strings.Join(skipped, ", "), strings.Join(vars, ", "))
	return b.String() + "end Hub.Generated\n"
}
