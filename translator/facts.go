package main

// Facts.lean: finite fact tables over all non-test, non-generated sources of x/, types/, utils/, app/.

import (
	"bytes"
	"crypto/sha256"
	"fmt"
	"go/ast"
	"go/printer"
	"go/token"
	"io/fs"
	"path"
	"path/filepath"
	"strings"
)

type row []string

type table struct {
	rows []row
	seen map[string]bool
}

// add appends a row; with dedup, an identical row is recorded once (first occurrence).
func (t *table) add(dedup bool, r ...string) {
	k := strings.Join(r, "\x00")
	if dedup && t.seen[k] {
		return
	}
	if t.seen == nil {
		t.seen = map[string]bool{}
	}
	t.seen[k] = true
	t.rows = append(t.rows, r)
}

func (t *table) lean(doc, name, ty string) string {
	var b strings.Builder
	fmt.Fprintf(&b, "/-- %s -/\ndef %s : List (%s) := [", doc, name, ty)
	for i, r := range t.rows {
		q := make([]string, len(r))
		for j, s := range r {
			q[j] = leanString(s)
		}
		b.WriteString("\n  (" + strings.Join(q, ", ") + ")")
		if i < len(t.rows)-1 {
			b.WriteString(",")
		}
	}
	if len(t.rows) > 0 {
		b.WriteString("\n")
	}
	b.WriteString("]\n")
	return b.String()
}

func stringList(doc, name string, xs []string) string {
	q := make([]string, len(xs))
	for i, s := range xs {
		q[i] = "\n  " + leanString(s)
	}
	if doc != "" {
		doc = "/-- " + doc + " -/\n"
	}
	return fmt.Sprintf("%sdef %s : List String := [%s\n]\n", doc, name, strings.Join(q, ","))
}

// sourceFiles lists the files the fact tables range over (slash-separated, relative to the repo).
func sourceFiles() (files []string) {
	for _, root := range []string{"x", "types", "utils", "app"} {
		err := filepath.WalkDir(filepath.Join(repo, root), func(p string, d fs.DirEntry, err error) error {
			if err != nil {
				return err
			}
			n := d.Name()
			if d.IsDir() && (n == "client" || n == "simulation") {
				return filepath.SkipDir
			}
			if !d.IsDir() && strings.HasSuffix(n, ".go") && !strings.HasSuffix(n, "_test.go") &&
				!strings.HasSuffix(n, ".pb.go") && !strings.HasSuffix(n, ".pb.gw.go") {
				rel, _ := filepath.Rel(repo, p)
				files = append(files, filepath.ToSlash(rel))
			}
			return nil
		})
		if err != nil {
			refuse(root, "", nil, "cannot walk: %v", err)
		}
	}
	return files
}

// mapInfo is the syntactic knowledge about maps of one package (directory).
type mapInfo struct{ types, vars, funcs, fields map[string]bool }

func (m *mapInfo) isMapType(e ast.Expr) bool {
	switch e := e.(type) {
	case *ast.MapType:
		return true
	case *ast.ParenExpr:
		return m.isMapType(e.X)
	case *ast.Ident:
		return m.types[e.Name]
	}
	return false
}

// isMapValue: is e (conservatively, by name) a map?  locals are the map-typed names of the function.
func (m *mapInfo) isMapValue(e ast.Expr, locals map[string]bool) bool {
	switch e := e.(type) {
	case *ast.ParenExpr:
		return m.isMapValue(e.X, locals)
	case *ast.CompositeLit:
		return e.Type != nil && m.isMapType(e.Type)
	case *ast.Ident:
		return locals[e.Name] || m.vars[e.Name]
	case *ast.SelectorExpr:
		return m.fields[e.Sel.Name]
	case *ast.CallExpr:
		if isIdent(e.Fun, "make") && len(e.Args) > 0 {
			return m.isMapType(e.Args[0])
		} else if id, ok := e.Fun.(*ast.Ident); ok {
			return m.funcs[id.Name] || m.types[id.Name] // call or conversion
		} else if sel, ok := e.Fun.(*ast.SelectorExpr); ok {
			return m.funcs[sel.Sel.Name]
		}
	}
	return false
}

func collectMapInfo(files []*ast.File) *mapInfo {
	m := &mapInfo{map[string]bool{}, map[string]bool{}, map[string]bool{}, map[string]bool{}}
	for pass := 0; pass < 2; pass++ { // twice: named map types may be used before their declaration
		for _, f := range files {
			for _, d := range f.Decls {
				if fd, ok := d.(*ast.FuncDecl); ok && fd.Type.Results != nil && len(fd.Type.Results.List) == 1 && m.isMapType(fd.Type.Results.List[0].Type) {
					m.funcs[fd.Name.Name] = true
				}
			}
			ast.Inspect(f, func(n ast.Node) bool {
				switch n := n.(type) {
				case *ast.TypeSpec:
					if m.isMapType(n.Type) {
						m.types[n.Name.Name] = true
					}
				case *ast.StructType:
					for _, fl := range n.Fields.List {
						for _, name := range fl.Names {
							if m.isMapType(fl.Type) {
								m.fields[name.Name] = true
							}
						}
					}
				case *ast.FuncDecl:
					return false // locals are handled per function
				case *ast.ValueSpec:
					for i, name := range n.Names {
						if (n.Type != nil && m.isMapType(n.Type)) || (i < len(n.Values) && m.isMapValue(n.Values[i], nil)) {
							m.vars[name.Name] = true
						}
					}
				}
				return true
			})
		}
	}
	return m
}

// mapLocals: names in a function that are (by declaration or initialiser) maps; flow-insensitive.
func (m *mapInfo) mapLocals(fd *ast.FuncDecl) map[string]bool {
	locals := map[string]bool{}
	fields := func(fl *ast.FieldList) {
		if fl == nil {
			return
		}
		for _, f := range fl.List {
			for _, n := range f.Names {
				if m.isMapType(f.Type) {
					locals[n.Name] = true
				}
			}
		}
	}
	fields(fd.Recv)
	for pass := 0; pass < 2; pass++ {
		ast.Inspect(fd, func(n ast.Node) bool {
			switch n := n.(type) {
			case *ast.FuncType:
				fields(n.Params)
				fields(n.Results)
			case *ast.ValueSpec:
				for i, name := range n.Names {
					if (n.Type != nil && m.isMapType(n.Type)) || (i < len(n.Values) && m.isMapValue(n.Values[i], locals)) {
						locals[name.Name] = true
					}
				}
			case *ast.AssignStmt:
				for i, l := range n.Lhs {
					if id, ok := l.(*ast.Ident); ok && len(n.Lhs) == len(n.Rhs) && m.isMapValue(n.Rhs[i], locals) {
						locals[id.Name] = true
					}
				}
			}
			return true
		})
	}
	return locals
}

func genFacts() string {
	var mintBurn, nondet, paginate, digests table
	var begin, end, initGen []string
	var perms string
	files := sourceFiles()
	parsed := map[string]*ast.File{}
	byDir := map[string][]*ast.File{}
	for _, rel := range files {
		parsed[rel] = parse(rel)
		byDir[path.Dir(rel)] = append(byDir[path.Dir(rel)], parsed[rel])
	}
	infos := map[string]*mapInfo{}
	for dir, dirFiles := range byDir {
		infos[dir] = collectMapInfo(dirFiles)
	}
	for _, rel := range files {
		f, imp, info := parsed[rel], imports(parsed[rel]), infos[path.Dir(rel)]
		for _, p := range imp {
			if p == "math/rand" || p == "math/rand/v2" || p == "crypto/rand" {
				nondet.add(true, rel, "", "math/rand")
			}
		}
		isQueryServer, _ := path.Match("x/*/keeper/query_server.go", rel)
		for _, d := range f.Decls {
			fn, locals := "", map[string]bool{}
			if fd, ok := d.(*ast.FuncDecl); ok {
				fn, locals = fd.Name.Name, info.mapLocals(fd)
				recv := ""
				if fd.Recv != nil && len(fd.Recv.List) == 1 {
					recv = src(fd.Recv.List[0].Type)
				}
				var b bytes.Buffer
				if err := (&printer.Config{Mode: printer.UseSpaces | printer.TabIndent, Tabwidth: 8}).Fprint(&b, fset, fd); err != nil {
					die(err)
				}
				digests.add(false, rel, recv, fn, fmt.Sprintf("%x", sha256.Sum256(b.Bytes())))
			}
			ast.Inspect(d, func(n ast.Node) bool {
				switch n := n.(type) {
				case *ast.CallExpr:
					sel, ok := n.Fun.(*ast.SelectorExpr)
					if !ok {
						break
					}
					q := ""
					if id, ok := sel.X.(*ast.Ident); ok {
						q = imp[id.Name] + "." + sel.Sel.Name
					}
					switch {
					case sel.Sel.Name == "MintCoins" || sel.Sel.Name == "BurnCoins":
						mintBurn.add(false, rel, fn, sel.Sel.Name)
					case isQueryServer && len(n.Args) == 3 && (q == sdkTypes+"/query.Paginate" || q == sdkTypes+"/query.FilteredPaginate"):
						paginate.add(false, rel, fn, sel.Sel.Name, classifyCallback(sel.Sel.Name, n.Args[2]))
					case rel == "app/module.go" && strings.HasPrefix(sel.Sel.Name, "SetOrder"):
						var args []string
						for _, a := range n.Args {
							args = append(args, src(a))
						}
						dst := map[string]*[]string{"SetOrderBeginBlockers": &begin, "SetOrderEndBlockers": &end, "SetOrderInitGenesis": &initGen}[sel.Sel.Name]
						if dst != nil && *dst != nil {
							refuse(rel, fn, n, "second call of %s", sel.Sel.Name)
						} else if dst != nil {
							*dst = append([]string{}, args...)
						}
					}
				case *ast.SelectorExpr:
					if id, ok := n.X.(*ast.Ident); ok && imp[id.Name] == "time" && n.Sel.Name == "Now" {
						nondet.add(true, rel, fn, "time.Now")
					}
				case *ast.GoStmt:
					nondet.add(true, rel, fn, "go-stmt")
				case *ast.SelectStmt:
					nondet.add(true, rel, fn, "select-stmt")
				case *ast.Ident:
					if n.Name == "float32" || n.Name == "float64" {
						nondet.add(true, rel, fn, "float")
					}
				case *ast.BasicLit:
					if n.Kind == token.FLOAT {
						nondet.add(true, rel, fn, "float")
					}
				case *ast.RangeStmt:
					if info.isMapValue(n.X, locals) {
						nondet.add(true, rel, fn, "range-map")
					}
				}
				return true
			})
			if fd, ok := d.(*ast.FuncDecl); ok && rel == "app/module.go" && fd.Name.Name == "ModuleAccPerms" {
				perms = accPerms(rel, fd)
			}
		}
	}
	if begin == nil || end == nil || initGen == nil || perms == "" {
		refuse("app/module.go", "", nil, "SetOrderBeginBlockers / SetOrderEndBlockers / SetOrderInitGenesis / ModuleAccPerms not found")
	}
	return "/- GENERATED " + banner + "namespace Hub.Generated.Facts\n" +
		mintBurn.lean("(file, function, callee) for every call whose selector name is MintCoins or BurnCoins.", "mintBurnCalls", "String × String × String") +
		nondet.lean("(file, function, kind) for every nondeterminism-prone construct; kind ∈ range-map (syntactic approximation, see README), time.Now, math/rand, go-stmt, select-stmt, float.  Function \"\" = package level.", "nondetConstructs", "String × String × String") +
		stringList("Argument texts of SetOrderBeginBlockers / SetOrderEndBlockers / SetOrderInitGenesis in app/module.go.", "beginBlockers", begin) +
		stringList("", "endBlockers", end) + stringList("", "initGenesis", initGen) + perms +
		paginate.lean("(file, method, Paginate | FilteredPaginate, shape) for every query.Paginate / query.FilteredPaginate call in x/*/keeper/query_server.go; shape ∈ append-always, filter, accumulate-gated, other.", "paginateCallbacks", "String × String × String × String") +
		digests.lean("(file, receiver or \"\", name, SHA-256 of the go/printer text without comments) of every function and method.", "funcDigests", "String × String × String × String") +
		"end Hub.Generated.Facts\n"
}

// accPerms reads `return map[string][]string{ key: nil | {perm, …}, … }`.
func accPerms(file string, fd *ast.FuncDecl) string {
	bad := func(n ast.Node) {
		refuse(file, fd.Name.Name, n, "expected `return map[string][]string{k: nil | {…}}`: %s", kind(n))
	}
	ret, ok := fd.Body.List[0].(*ast.ReturnStmt)
	if len(fd.Body.List) != 1 || !ok || len(ret.Results) != 1 {
		bad(fd.Body)
	}
	lit, ok := ret.Results[0].(*ast.CompositeLit)
	if !ok {
		bad(ret)
	}
	var rows []string
	for _, e := range lit.Elts {
		kv, ok := e.(*ast.KeyValueExpr)
		if !ok {
			bad(e)
		}
		var ps []string
		if v, ok := kv.Value.(*ast.CompositeLit); ok {
			for _, p := range v.Elts {
				ps = append(ps, leanString(src(p)))
			}
		} else if !isIdent(kv.Value, "nil") {
			bad(kv.Value)
		}
		rows = append(rows, "\n  ("+leanString(src(kv.Key))+", ["+strings.Join(ps, ", ")+"])")
	}
	return "/-- Module account permissions of `ModuleAccPerms()` in app/module.go: (key expression, permission expressions). -/\n" +
		"def moduleAccPerms : List (String × List String) := [" + strings.Join(rows, ",") + "\n]\n"
}

func isNil(e ast.Expr) bool { return isIdent(e, "nil") }

// isAppend: `xs = append(xs, x)`.
func isAppend(s ast.Stmt) bool {
	a, ok := s.(*ast.AssignStmt)
	if !ok || a.Tok != token.ASSIGN || len(a.Lhs) != 1 || len(a.Rhs) != 1 {
		return false
	}
	c, ok := a.Rhs[0].(*ast.CallExpr)
	id, ok2 := a.Lhs[0].(*ast.Ident)
	return ok && ok2 && isIdent(c.Fun, "append") && len(c.Args) == 2 && !c.Ellipsis.IsValid() && isIdent(c.Args[0], id.Name)
}

// isDefine: a declaration or `:=` that does not mention the identifier acc.
func isDefine(s ast.Stmt, acc string) bool {
	if a, ok := s.(*ast.AssignStmt); ok {
		return a.Tok == token.DEFINE && !mentions(a, acc)
	}
	_, ok := s.(*ast.DeclStmt)
	return ok && !mentions(s, acc)
}

// errorExit: `if … { return …, <non-nil> }` without else; the results before the last must be `false`.
func errorExit(s ast.Stmt, acc string) bool {
	i, ok := s.(*ast.IfStmt)
	if !ok || i.Else != nil || len(i.Body.List) != 1 || mentions(i, acc) {
		return false
	}
	r, ok := i.Body.List[0].(*ast.ReturnStmt)
	if !ok || len(r.Results) == 0 || isNil(r.Results[len(r.Results)-1]) {
		return false
	}
	return len(r.Results) == 1 || (len(r.Results) == 2 && isIdent(r.Results[0], "false"))
}

func isReturn(s ast.Stmt, text string) bool {
	_, ok := s.(*ast.ReturnStmt)
	return ok && src(s) == text
}

// classifyCallback names the shape of a pagination callback; "other" whenever unsure.
func classifyCallback(fn string, cb ast.Expr) string {
	fl, ok := cb.(*ast.FuncLit)
	if !ok || len(fl.Body.List) < 2 {
		return "other"
	}
	body, last := fl.Body.List[:len(fl.Body.List)-1], fl.Body.List[len(fl.Body.List)-1]
	const none = "\x00" // no identifier has this name
	if fn == "Paginate" {
		appends := 0
		for _, s := range body {
			if isAppend(s) {
				appends++
			} else if !isDefine(s, none) && !errorExit(s, none) {
				return "other"
			}
		}
		if appends == 1 && isReturn(last, "return nil") {
			return "append-always"
		}
		return "other"
	}
	var names []string
	for _, f := range fl.Type.Params.List {
		for _, n := range f.Names {
			names = append(names, n.Name)
		}
	}
	if len(names) != 3 || names[2] == "_" {
		return "other"
	}
	g := &gate{acc: names[2]}
	ast.Inspect(fl.Body, func(n ast.Node) bool { // a nested closure: give up
		_, lit := n.(*ast.FuncLit)
		g.unsure = g.unsure || lit
		return true
	})
	g.walk(fl.Body.List, false)
	if g.unsure {
		return "other"
	} else if g.gated {
		return "accumulate-gated"
	}
	blocks := 0
	for _, s := range body {
		ifs, isIf := s.(*ast.IfStmt)
		switch {
		case isDefine(s, g.acc) || errorExit(s, g.acc):
		case isIf && ifs.Init == nil && ifs.Else == nil && !mentions(ifs.Cond, g.acc) && len(ifs.Body.List) == 1 && isReturn(ifs.Body.List[0], "return false, nil"):
		case isIf && ifs.Init == nil && ifs.Else == nil && isIdent(ifs.Cond, g.acc): // if accumulate { …; items = append(items, item) }
			appends := 0
			for _, t := range ifs.Body.List {
				if isAppend(t) {
					appends++
				} else if !isDefine(t, g.acc) && !errorExit(t, g.acc) {
					return "other"
				}
			}
			if appends != 1 {
				return "other"
			}
			blocks++
		default:
			return "other"
		}
	}
	if blocks == 1 && isReturn(last, "return true, nil") {
		return "filter"
	}
	return "other"
}

// gate finds `return <not true>, nil` on a path whose reachability depends on the accumulate flag.
type gate struct {
	acc           string
	gated, unsure bool
}

// walk returns whether control after the statements depends on acc (an acc-guarded branch returned).
func (g *gate) walk(stmts []ast.Stmt, dep bool) bool {
	for _, s := range stmts {
		switch s := s.(type) {
		case *ast.ReturnStmt:
			if len(s.Results) != 2 {
				g.unsure = true
			} else if dep && isNil(s.Results[1]) && !isIdent(s.Results[0], "true") {
				g.gated = true
			}
		case *ast.IfStmt:
			m := mentions(s.Cond, g.acc) || (s.Init != nil && mentions(s.Init, g.acc))
			after := g.walk(s.Body.List, dep || m)
			if s.Else != nil {
				after = g.walk([]ast.Stmt{s.Else}, dep || m) || after
			}
			hasReturn := false
			ast.Inspect(s, func(n ast.Node) bool {
				_, r := n.(*ast.ReturnStmt)
				hasReturn = hasReturn || r
				return true
			})
			dep = dep || after || (m && hasReturn)
		case *ast.BlockStmt:
			dep = g.walk(s.List, dep)
		case *ast.AssignStmt, *ast.DeclStmt, *ast.IncDecStmt:
			if mentions(s, g.acc) { // a value derived from acc: give up
				g.unsure = true
			}
		case *ast.ExprStmt:
		default: // loops, switches, labels, defer, go …
			g.unsure = true
		}
	}
	return dep
}
