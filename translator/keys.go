package main

// Keys.lean: prefix constants, key constructors and key decoders of x/<module>/types/keys.go.

import (
	"fmt"
	"go/ast"
	"go/token"
	"strings"
)

const addrPkg = sdkTypes + "/address"

type keysCtx struct {
	file, fn string
	imp      map[string]string
	hub      string              // import path of the hub's own `types` package
	env      map[string]string   // parameters and locals of the current function → Nat | Bytes | Time
	vars     map[string]bool     // Bytes constants emitted so far
	funcs    map[string][]string // constructors emitted so far → parameter types
}

func (k *keysCtx) no(n ast.Node, why string) { refuse(k.file, k.fn, n, "%s: %s", why, kind(n)) }

// qual resolves `alias.Name` to "import/path.Name" ("" if e is not a qualified identifier).
func (k *keysCtx) qual(e ast.Expr) string {
	if sel, ok := e.(*ast.SelectorExpr); ok {
		if id, ok := sel.X.(*ast.Ident); ok && k.env[id.Name] == "" && k.imp[id.Name] != "" {
			return k.imp[id.Name] + "." + sel.Sel.Name
		}
	}
	return ""
}

func (k *keysCtx) typ(e ast.Expr) string {
	if a, ok := e.(*ast.ArrayType); ok && a.Len == nil && isIdent(a.Elt, "byte") {
		return "Bytes"
	} else if isIdent(e, "uint64") {
		return "Nat"
	} else if isIdent(e, "EthereumHash") {
		return "Bytes"
	}
	switch k.qual(e) {
	case "time.Time":
		return "Time"
	case sdkTypes + ".AccAddress", k.hub + ".NodeAddress", k.hub + ".ProvAddress":
		return "Bytes"
	}
	k.no(e, "unsupported type")
	return ""
}

func genKeys(modules []string) string {
	var b strings.Builder
	b.WriteString("import Hub.SDK.Time\n/- GENERATED from x/*/types/keys.go " + banner + "namespace Hub.Generated.Keys\nopen Hub.SDK\n")
	var ignored, notes []string
	for _, m := range modules {
		file := "x/" + m + "/types/keys.go"
		f := parse(file)
		k := &keysCtx{file: file, imp: imports(f), hub: modulePath() + "/types", vars: map[string]bool{}, funcs: map[string][]string{}}
		b.WriteString("\nnamespace " + m + "\n")
		for _, d := range f.Decls {
			switch d := d.(type) {
			case *ast.FuncDecl:
				b.WriteString(k.function(d))
			case *ast.GenDecl:
				for _, s := range d.Specs {
					vs, ok := s.(*ast.ValueSpec)
					switch {
					case d.Tok == token.IMPORT:
					case d.Tok == token.CONST:
						for _, n := range vs.Names {
							ignored = append(ignored, m+": const "+n.Name)
						}
					case d.Tok == token.VAR && ok && len(vs.Names) == 1 && len(vs.Values) == 1 && vs.Type == nil:
						k.fn, k.env = "var "+vs.Names[0].Name, map[string]string{}
						lit, isLit := vs.Values[0].(*ast.CompositeLit)
						call, isCall := vs.Values[0].(*ast.CallExpr)
						switch {
						case isLit && k.typ(lit.Type) == "Bytes":
							b.WriteString("def " + vs.Names[0].Name + " : Bytes := " + k.byteList(lit.Elts) + "\n")
						case isCall && isIdent(call.Fun, "append"):
							s, _ := k.bytes(call)
							b.WriteString("def " + vs.Names[0].Name + " : Bytes := " + s + "\n")
							notes = append(notes, m+": var "+vs.Names[0].Name+" is built by append, so the Go slice may have spare capacity and a later append(…) of few bytes can write into the shared backing array; modelled as a pure value")
						default:
							ignored = append(ignored, m+": var "+vs.Names[0].Name+" = "+src(vs.Values[0])+" (not a []byte)")
							continue
						}
						k.vars[vs.Names[0].Name] = true
					default:
						refuse(file, "", s, "unsupported declaration %s", kind(s))
					}
				}
			}
		}
		b.WriteString("end " + m + "\n")
	}
	b.WriteString("\n/- ignored:\n   " + strings.Join(ignored, "\n   ") + "\n   notes:\n   " + strings.Join(notes, "\n   ") + " -/\nend Hub.Generated.Keys\n")
	return b.String()
}

func (k *keysCtx) byteList(es []ast.Expr) string {
	var parts []string
	for _, e := range es {
		v := intLit(k.file, k.fn, e)
		if v > 255 {
			k.no(e, "byte literal out of range")
		}
		parts = append(parts, fmt.Sprintf("0x%02x", v))
	}
	return "[" + strings.Join(parts, ", ") + "]"
}

func (k *keysCtx) function(d *ast.FuncDecl) string {
	k.fn, k.env = d.Name.Name, map[string]string{}
	if d.Recv != nil || d.Type.TypeParams != nil || d.Type.Results == nil || len(d.Type.Results.List) != 1 ||
		len(d.Type.Results.List[0].Names) > 1 || d.Body == nil {
		k.no(d.Type, "need a plain function with exactly one result")
	}
	var bs []binder
	var ptypes []string
	for _, f := range d.Type.Params.List {
		for _, n := range f.Names {
			k.env[n.Name] = k.typ(f.Type)
			bs = append(bs, binder{leanIdent(n.Name), k.env[n.Name]})
			ptypes = append(ptypes, k.env[n.Name])
		}
		if len(f.Names) == 0 {
			k.no(f, "unnamed parameter")
		}
	}
	res := d.Type.Results.List[0].Type
	if len(bs) == 1 && bs[0] == (binder{"key", "Bytes"}) && k.typ(res) != "" {
		if _, isSlice := res.(*ast.ArrayType); !isSlice {
			return k.decoder(d, k.typ(res))
		}
	}
	if _, isSlice := res.(*ast.ArrayType); !isSlice || k.typ(res) != "Bytes" {
		k.no(res, "a key constructor must return []byte")
	}
	ret, ok := d.Body.List[0].(*ast.ReturnStmt)
	if len(d.Body.List) != 1 || !ok || len(ret.Results) != 1 {
		k.no(d.Body, "a key constructor must be a single return statement")
	}
	s, _ := k.bytes(ret.Results[0])
	k.funcs[d.Name.Name] = ptypes
	return "def " + d.Name.Name + binders(bs) + " : Bytes := " + s + "\n"
}

// bytes translates a []byte-valued expression; the level is 0 for an atom, 1 for an application, 2 for `++`.
func (k *keysCtx) bytes(e ast.Expr) (string, int) {
	switch e := e.(type) {
	case *ast.Ident:
		if k.env[e.Name] == "Bytes" || (k.env[e.Name] == "" && k.vars[e.Name]) {
			return leanIdent(e.Name), 0
		}
	case *ast.CallExpr:
		arg := func(i int, want string, max int) string { // i-th argument, parenthesised above level max
			if id, ok := e.Args[i].(*ast.Ident); ok && want != "Bytes" {
				if k.env[id.Name] != want {
					k.no(e.Args[i], "argument must be a parameter of type "+want)
				}
				return leanIdent(id.Name)
			} else if want != "Bytes" {
				k.no(e.Args[i], "argument must be a parameter of type "+want)
			}
			s, level := k.bytes(e.Args[i])
			return paren(s, level <= max)
		}
		sel, isSel := e.Fun.(*ast.SelectorExpr)
		q := k.qual(e.Fun)
		one := len(e.Args) == 1 && !e.Ellipsis.IsValid()
		switch {
		case isIdent(e.Fun, "append") && len(e.Args) == 2 && e.Ellipsis.IsValid(): // append(a, b...)
			return arg(0, "Bytes", 1) + " ++ " + arg(1, "Bytes", 1), 2
		case isIdent(e.Fun, "append") && len(e.Args) >= 2: // append(a, 0x01)
			return arg(0, "Bytes", 1) + " ++ " + k.byteList(e.Args[1:]), 2
		case q == sdkTypes+".Uint64ToBigEndian" && one:
			return "u64be " + arg(0, "Nat", 0), 1
		case q == sdkTypes+".FormatTimeBytes" && one:
			return "formatTimeBytes " + arg(0, "Time", 0), 1
		case q == addrPkg+".MustLengthPrefix" && one:
			return "lp " + arg(0, "Bytes", 0), 1
		case q == "" && isSel && sel.Sel.Name == "Bytes" && len(e.Args) == 0: // addr.Bytes(), hash.Bytes()
			if id, ok := sel.X.(*ast.Ident); ok && k.env[id.Name] == "Bytes" {
				return leanIdent(id.Name), 0
			}
		case q == "" && !isSel && !e.Ellipsis.IsValid(): // a constructor defined earlier in this file
			id, ok := e.Fun.(*ast.Ident)
			if !ok || k.funcs[id.Name] == nil || len(k.funcs[id.Name]) != len(e.Args) {
				break
			}
			words := []string{id.Name}
			for i, t := range k.funcs[id.Name] {
				words = append(words, arg(i, t, 0))
			}
			return strings.Join(words, " "), 1
		}
	}
	k.no(e, "unsupported []byte expression")
	return "", 0
}

// nat translates an int-valued index / length expression of a decoder.
func (k *keysCtx) nat(e ast.Expr) (string, bool) {
	switch e := e.(type) {
	case *ast.BasicLit:
		return fmt.Sprint(intLit(k.file, k.fn, e)), true
	case *ast.Ident:
		if k.env[e.Name] == "Nat" {
			return leanIdent(e.Name), true
		}
	case *ast.BinaryExpr:
		if e.Op == token.ADD {
			x, xa := k.nat(e.X)
			y, ya := k.nat(e.Y)
			_, xAdd := e.X.(*ast.BinaryExpr)
			return paren(x, xa || xAdd) + " + " + paren(y, ya), false
		}
	case *ast.CallExpr:
		if isIdent(e.Fun, "len") && len(e.Args) == 1 && isIdent(e.Args[0], "key") {
			return "key.length", true
		} else if isIdent(e.Fun, "int") && len(e.Args) == 1 { // int(key[i])
			if ix, ok := e.Args[0].(*ast.IndexExpr); ok && isIdent(ix.X, "key") {
				return "(← idx key " + paren(k.nat(ix.Index)) + ")", true
			}
		}
	}
	k.no(e, "unsupported integer expression")
	return "", false
}

// decoder translates `func F(key []byte) uint64|address`: reads of key bytes, length check, final slice.
func (k *keysCtx) decoder(d *ast.FuncDecl, ret string) string {
	var lines []string
	for i, st := range d.Body.List {
		switch s := st.(type) {
		case *ast.AssignStmt: // x := int(key[i])   |   a, b := int(key[i]), int(key[j])
			if s.Tok != token.DEFINE || len(s.Lhs) != len(s.Rhs) || i == len(d.Body.List)-1 {
				k.no(s, "unsupported assignment")
			}
			var names []string
			for j, r := range s.Rhs {
				v, _ := k.nat(r)
				id, ok := s.Lhs[j].(*ast.Ident)
				if !ok || id.Name == "_" || k.env[id.Name] != "" || !strings.HasPrefix(v, "(← idx key ") {
					k.no(s, "only `x := int(key[i])` with a fresh x is accepted")
				}
				lines = append(lines, "let "+leanIdent(id.Name)+" ← "+strings.TrimSuffix(strings.TrimPrefix(v, "(← "), ")"))
				names = append(names, id.Name)
			}
			for _, n := range names { // Go evaluates every right-hand side before assigning
				k.env[n] = "Nat"
			}
		case *ast.IfStmt: // if len(key) != e { panic(…) }
			cond, ok := s.Cond.(*ast.BinaryExpr)
			if !ok || s.Init != nil || s.Else != nil || cond.Op != token.NEQ || src(cond.X) != "len(key)" || len(s.Body.List) != 1 || i == len(d.Body.List)-1 {
				k.no(s, "only `if len(key) != e { panic(…) }` is accepted")
			}
			if !strings.HasPrefix(src(s.Body.List[0]), "panic(") {
				k.no(s, "only `if len(key) != e { panic(…) }` is accepted")
			}
			e, _ := k.nat(cond.Y)
			lines = append(lines, "if key.length != "+e+" then throw \"invalid key length\"")
		case *ast.ReturnStmt:
			if i != len(d.Body.List)-1 || len(s.Results) != 1 {
				k.no(s, "return must be last and have one result")
			}
			r, toNat := s.Results[0], false
			if call, ok := r.(*ast.CallExpr); ok && k.qual(call.Fun) == sdkTypes+".BigEndianToUint64" && len(call.Args) == 1 {
				r, toNat = call.Args[0], true
			}
			sl, ok := r.(*ast.SliceExpr)
			if !ok || !isIdent(sl.X, "key") || sl.Low == nil || sl.Slice3 || toNat != (ret == "Nat") || (toNat && sl.High != nil) {
				k.no(s, "only `return key[lo:]`, `return key[lo:hi]` (address) or `return sdk.BigEndianToUint64(key[lo:])` (uint64) is accepted")
			}
			t := "sliceFrom key " + paren(k.nat(sl.Low))
			if sl.High != nil {
				t = "slice key " + paren(k.nat(sl.Low)) + " " + paren(k.nat(sl.High))
			}
			if toNat {
				t = "bigEndianToUint64 (← " + t + ")"
			}
			lines = append(lines, t)
		default:
			k.no(st, "unsupported statement in a key decoder")
		}
	}
	if n := len(d.Body.List); n == 0 {
		k.no(d.Body, "empty body")
	} else if _, ok := d.Body.List[n-1].(*ast.ReturnStmt); !ok {
		k.no(d.Body, "a key decoder must end in a return")
	}
	return "def " + d.Name.Name + " (key : Bytes) : Except String " + ret + " := do\n  " + strings.Join(lines, "\n  ") + "\n"
}
