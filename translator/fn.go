package main

// The typed statement/expression translator shared by Status.lean, Coin.lean and Bandwidth.lean.
// Types are tracked by name: SInt, Dec, Coin, Bool, String, "List T", and the structs / enums of the
// package being translated.  Calls that can panic in Go are monadic (`M`) and are put in A-normal form.

import (
	"go/ast"
	"go/token"
	"strconv"
	"strings"
)

const (
	mathPkg  = "cosmossdk.io/math"
	sdkTypes = "github.com/cosmos/cosmos-sdk/types"
)

// sig is a callable: parameter types (receiver excluded), result type, monadic?, Lean head symbol.
type sig struct {
	params []string
	ret    string
	mon    bool
	lean   string
}

var builtins = map[string]sig{
	"SInt.Add":                       {[]string{"SInt"}, "SInt", true, "SInt.add"},
	"SInt.Sub":                       {[]string{"SInt"}, "SInt", true, "SInt.sub"},
	"SInt.Mul":                       {[]string{"SInt"}, "SInt", true, "SInt.mul"},
	"SInt.Quo":                       {[]string{"SInt"}, "SInt", true, "SInt.quo"},
	"SInt.Mod":                       {[]string{"SInt"}, "SInt", true, "SInt.mod"},
	"Dec.QuoInt":                     {[]string{"SInt"}, "Dec", true, "Dec.quoInt"},
	"Dec.Mul":                        {[]string{"Dec"}, "Dec", true, "Dec.mul"},
	"Dec.Ceil":                       {nil, "Dec", true, "Dec.ceil"},
	"Dec.TruncateInt":                {nil, "SInt", true, "Dec.truncateInt"},
	"Dec.RoundInt":                   {nil, "SInt", true, "Dec.roundInt"},
	mathPkg + ".LegacyNewDecFromInt": {[]string{"SInt"}, "Dec", false, "Dec.ofInt"},
	mathPkg + ".ZeroInt":             {nil, "SInt", false, "0"},
	mathPkg + ".OneInt":              {nil, "SInt", false, "1"},
	sdkTypes + ".NewCoin":            {[]string{"String", "SInt"}, "Coin", true, "newCoin"},
	"strings.ToLower":                {[]string{"String"}, "String", false, ".toLower"},
}

// compare: Int predicates that become (decidable) comparisons.
var compare = map[string]string{
	"SInt.IsZero": "= 0", "SInt.IsNegative": "< 0", "SInt.IsPositive": "> 0",
	"SInt.LTE": "≤", "SInt.GT": ">", "SInt.Equal": "=",
}

var extTypes = map[string]string{mathPkg + ".Int": "SInt", mathPkg + ".LegacyDec": "Dec", sdkTypes + ".Coin": "Coin"}

// pkgInfo is what is known about the package a function lives in.
type pkgInfo struct {
	file    string
	imp     map[string]string
	structs map[string][]binder // struct name → fields (Lean field name = Go field name)
	enums   map[string]string   // constant → enum type
	ext     map[string]val      // "import/path.Name" → value of another package
	funcs   map[string]sig      // "F" or "T.M": functions translated so far (source order)
}

func newPkg(file string, f *ast.File) *pkgInfo {
	return &pkgInfo{file: file, imp: imports(f), structs: map[string][]binder{"Coin": {{"Denom", "String"}, {"Amount", "SInt"}}},
		enums: map[string]string{}, ext: map[string]val{}, funcs: map[string]sig{}}
}

// goType maps a Go type expression to a model type name.
func (p *pkgInfo) goType(fn string, e ast.Expr) string {
	switch e := e.(type) {
	case *ast.Ident:
		if e.Name == "bool" {
			return "Bool"
		} else if e.Name == "string" {
			return "String"
		} else if _, ok := p.structs[e.Name]; ok && e.Name != "Coin" {
			return e.Name
		}
		for _, t := range p.enums {
			if t == e.Name {
				return t
			}
		}
	case *ast.SelectorExpr:
		if id, ok := e.X.(*ast.Ident); ok {
			if t, ok := extTypes[p.imp[id.Name]+"."+e.Sel.Name]; ok {
				return t
			}
		}
	case *ast.Ellipsis:
		return "List " + p.goType(fn, e.Elt)
	}
	refuse(p.file, fn, e, "unsupported type %s", kind(e))
	return ""
}

type val struct {
	s    string // Lean term
	t    string // model type
	atom bool   // needs no parentheses as an argument
	mon  bool   // an unbound monadic call (only returned when asked for with top = true)
}

type leanFn struct {
	name, doc, binders, ret string
	mon                     bool
	lines, tail             []string
}

type fctx struct {
	p     *pkgInfo
	fn    string
	env   map[string]string
	ret   string
	lines []string
	tail  []string
	ntmp  int
	mon   bool // some monadic call was emitted
	early bool // an early `return` was emitted
	tmon  bool // the tail is itself a monadic call
}

func (c *fctx) no(n ast.Node, why string) { refuse(c.p.file, c.fn, n, "%s: %s", why, kind(n)) }

// translateFunc translates one function or value-receiver method and registers its signature.
func (p *pkgInfo) translateFunc(d *ast.FuncDecl) leanFn {
	c := &fctx{p: p, fn: d.Name.Name, env: map[string]string{}}
	var bs []binder
	key := d.Name.Name
	add := func(fl *ast.FieldList) {
		for _, f := range fl.List {
			t := p.goType(c.fn, f.Type)
			if len(f.Names) == 0 {
				c.no(f, "unnamed parameter or receiver")
			}
			for _, n := range f.Names {
				c.env[n.Name] = t
				bs = append(bs, binder{leanIdent(n.Name), t})
			}
		}
	}
	if d.Recv != nil {
		add(d.Recv)
		key = bs[0].ty + "." + key
	}
	nrecv := len(bs)
	add(d.Type.Params)
	if d.Type.TypeParams != nil || d.Type.Results == nil || len(d.Type.Results.List) != 1 || len(d.Type.Results.List[0].Names) != 0 {
		c.no(d.Type, "need exactly one unnamed result and no type parameters")
	}
	c.ret = p.goType(c.fn, d.Type.Results.List[0].Type)
	if d.Body == nil {
		c.no(d, "function without body")
	}
	c.block(d.Body.List)
	if c.early && !c.mon {
		c.no(d.Body, "early return in a function without monadic calls")
	} else if !c.mon && len(c.lines) > 0 {
		c.no(d.Body, "local statements in a function without monadic calls")
	} else if c.mon && !c.tmon {
		if len(c.tail) != 1 {
			c.no(d.Body, "match as the result of a monadic function")
		}
		c.tail[0] = "pure " + c.tail[0]
	}
	s := sig{ret: c.ret, mon: c.mon, lean: d.Name.Name}
	for _, b := range bs[nrecv:] {
		s.params = append(s.params, b.ty)
	}
	p.funcs[key] = s
	return leanFn{d.Name.Name, signature(d), binders(bs), c.ret, c.mon, c.lines, c.tail}
}

func (f leanFn) String() string {
	ret := leanType(f.ret)
	if f.mon {
		ret = "M " + paren(ret, !strings.Contains(ret, " "))
	}
	head := "/-- `" + f.doc + "` -/\ndef " + f.name + f.binders + " : " + ret + " :="
	switch {
	case f.mon && len(f.lines) > 0:
		return head + " do\n  " + strings.Join(append(append([]string{}, f.lines...), f.tail...), "\n  ") + "\n"
	case len(f.tail) == 1 && len(head)+len(f.tail[0]) < 150:
		return head + " " + f.tail[0] + "\n"
	}
	return head + "\n  " + strings.Join(f.tail, "\n  ") + "\n"
}

// block translates a function body: a list of statements ending in the statement that yields the result.
func (c *fctx) block(stmts []ast.Stmt) {
	for i := 0; i < len(stmts); i++ {
		last := i == len(stmts)-1
		switch s := stmts[i].(type) {
		case *ast.ReturnStmt:
			if !last || len(s.Results) != 1 {
				c.no(s, "return must be the last statement and have one result")
			}
			v := c.expr(s.Results[0], true)
			c.want(s, v, c.ret)
			c.tail, c.tmon = []string{v.s}, v.mon
		case *ast.AssignStmt:
			if len(s.Lhs) != 1 || len(s.Rhs) != 1 {
				c.no(s, "multiple assignment")
			}
			id, isID := s.Lhs[0].(*ast.Ident)
			switch {
			case s.Tok == token.DEFINE && isID && id.Name != "_":
				v := c.expr(s.Rhs[0], true)
				arrow := " := "
				if v.mon {
					arrow = " ← "
				}
				c.lines = append(c.lines, "let "+leanIdent(id.Name)+arrow+v.s)
				c.env[id.Name] = v.t
			case s.Tok == token.ASSIGN && !isID:
				c.lines = append(c.lines, "let "+c.fieldUpdate(s, "")) // x.F = e
			case s.Tok == token.ASSIGN && isID && i+2 == len(stmts): // x = e; switch x {…}
				sw, ok := stmts[i+1].(*ast.SwitchStmt)
				if !ok || sw.Init != nil || !isIdent(sw.Tag, id.Name) || c.env[id.Name] == "" {
					c.no(s, "assignment to a variable (only `x = e` directly before a final `switch x` is accepted)")
				}
				v := c.expr(s.Rhs[0], false)
				c.want(s, v, c.env[id.Name])
				c.match(sw, v, id.Name)
				i++
			default:
				c.no(s, "unsupported assignment")
			}
		case *ast.IfStmt:
			if s.Init != nil || s.Else != nil || len(s.Body.List) != 1 {
				c.no(s, "if with init, else, or a body that is not a single statement")
			}
			cond := c.expr(s.Cond, false)
			c.want(s.Cond, cond, "Bool")
			n := len(c.lines)
			switch b := s.Body.List[0].(type) {
			case *ast.ReturnStmt: // if c { return e }
				if len(b.Results) != 1 {
					c.no(b, "return must have one result")
				}
				v := c.expr(b.Results[0], false)
				c.want(b, v, c.ret)
				c.lines = append(c.lines, "if "+cond.s+" then return "+v.s)
				c.early = true
			case *ast.AssignStmt: // if c { x.F = e }
				x := c.fieldUpdate(b, cond.s)
				c.lines = append(c.lines, "let "+x)
			default:
				c.no(b, "unsupported statement in if body")
			}
			if len(c.lines) != n+1 {
				c.no(s, "monadic call inside an if body")
			}
		case *ast.SwitchStmt:
			if !last || s.Init != nil || s.Tag == nil {
				c.no(s, "switch must be the last statement and have a tag and no init")
			}
			c.match(s, c.expr(s.Tag, false), "")
		case *ast.RangeStmt: // for _, x := range xs { if c { return true } }; return false
			c.rangeAny(s, stmts[i+1:])
			i++
		default:
			c.no(s, "unsupported statement")
		}
	}
	if c.tail == nil {
		c.no(stmts[len(stmts)-1], "function body does not end in a result")
	}
}

func (c *fctx) want(n ast.Node, v val, t string) {
	if v.t != t {
		c.no(n, "type mismatch: have "+v.t+", want "+t)
	}
}

// fieldUpdate translates `x.F = e` (x a local struct value) to `x := { x with F := e }`, or with a
// condition to `x := if cond then { x with F := e } else x`.
func (c *fctx) fieldUpdate(s *ast.AssignStmt, cond string) string {
	sel, ok := s.Lhs[0].(*ast.SelectorExpr)
	if !ok || s.Tok != token.ASSIGN || len(s.Lhs) != 1 || len(s.Rhs) != 1 {
		c.no(s, "expected `x.Field = e`")
	}
	x, ok := sel.X.(*ast.Ident)
	if !ok || c.env[x.Name] == "" {
		c.no(s, "field assignment to something that is not a local struct value")
	}
	v := c.expr(s.Rhs[0], false)
	c.want(s, v, c.field(sel, c.env[x.Name]).ty)
	name := leanIdent(x.Name)
	upd := "{ " + name + " with " + sel.Sel.Name + " := " + v.s + " }"
	if cond != "" {
		upd = "if " + cond + " then " + upd + " else " + name
	}
	return name + " := " + upd
}

func (c *fctx) field(sel *ast.SelectorExpr, t string) binder {
	for _, f := range c.p.structs[t] {
		if f.name == sel.Sel.Name {
			return f
		}
	}
	c.no(sel, "unknown field of "+t)
	return binder{}
}

// match translates `switch tag { case K: return e … default: return e }`.
func (c *fctx) match(s *ast.SwitchStmt, tag val, shadow string) {
	if len(c.lines) != 0 || c.mon {
		c.no(s, "switch in a function with other statements")
	}
	c.tail = []string{"match " + tag.s + " with"}
	for i, st := range s.Body.List {
		cc := st.(*ast.CaseClause)
		pat := "_"
		if cc.List != nil {
			if len(cc.List) != 1 {
				c.no(cc, "case with several values")
			}
			k := c.expr(cc.List[0], false)
			_, isLit := cc.List[0].(*ast.BasicLit)
			if !k.atom || !(isLit || strings.HasPrefix(k.s, ".")) {
				c.no(cc, "case value must be a literal or an enum constant")
			}
			c.want(cc, k, tag.t)
			pat = k.s
		} else if i != len(s.Body.List)-1 {
			c.no(cc, "default must be the last clause")
		}
		ret, ok := cc.Body[0].(*ast.ReturnStmt)
		if len(cc.Body) != 1 || !ok || len(ret.Results) != 1 {
			c.no(cc, "case body must be a single return")
		}
		if shadow != "" && mentions(ret, shadow) {
			c.no(ret, "case body mentions the reassigned variable")
		}
		v := c.expr(ret.Results[0], false)
		c.want(ret, v, c.ret)
		c.tail = append(c.tail, "| "+pat+" => "+v.s)
	}
	if len(c.tail) < 2 || !strings.HasPrefix(c.tail[len(c.tail)-1], "| _ ") || c.mon {
		c.no(s, "switch needs a default clause and pure case bodies")
	}
}

// rangeAny translates the "any element satisfies" loop over a variadic parameter.
func (c *fctx) rangeAny(s *ast.RangeStmt, rest []ast.Stmt) {
	x, ok := s.Value.(*ast.Ident)
	xs, ok2 := s.X.(*ast.Ident)
	if !ok || !ok2 || s.Tok != token.DEFINE || !isIdent(s.Key, "_") || !strings.HasPrefix(c.env[xs.Name], "List ") ||
		len(s.Body.List) != 1 || len(rest) != 1 || len(c.lines) != 0 || c.ret != "Bool" {
		c.no(s, "only `for _, x := range xs { if c { return true } }; return false` is accepted")
	}
	ifs, ok := s.Body.List[0].(*ast.IfStmt)
	ret, ok2 := rest[0].(*ast.ReturnStmt)
	if !ok || !ok2 || ifs.Init != nil || ifs.Else != nil || src(ifs.Body) != "{ return true }" || src(ret) != "return false" {
		c.no(s, "only `for _, x := range xs { if c { return true } }; return false` is accepted")
	}
	c.env[x.Name] = strings.TrimPrefix(c.env[xs.Name], "List ")
	cond := c.expr(ifs.Cond, false)
	c.want(ifs.Cond, cond, "Bool")
	if c.mon {
		c.no(ifs.Cond, "monadic call in a loop condition")
	}
	delete(c.env, x.Name)
	c.tail = []string{leanIdent(xs.Name) + ".any (fun " + leanIdent(x.Name) + " => " + cond.s + ")"}
}

func (c *fctx) expr(e ast.Expr, top bool) val {
	switch e := e.(type) {
	case *ast.ParenExpr:
		return c.expr(e.X, top)
	case *ast.BasicLit:
		if e.Kind == token.STRING {
			if s, err := strconv.Unquote(e.Value); err == nil {
				return val{s: leanString(s), t: "String", atom: true}
			}
		}
	case *ast.Ident:
		if t, ok := c.env[e.Name]; ok {
			return val{s: leanIdent(e.Name), t: t, atom: true}
		} else if t, ok := c.p.enums[e.Name]; ok {
			return val{s: "." + e.Name, t: t, atom: true}
		}
	case *ast.SelectorExpr:
		if id, ok := e.X.(*ast.Ident); ok && c.env[id.Name] == "" {
			if v, ok := c.p.ext[c.p.imp[id.Name]+"."+e.Sel.Name]; ok {
				return v
			}
			c.no(e, "unknown qualified identifier")
		}
		x := c.expr(e.X, false)
		f := c.field(e, x.t)
		name := f.name
		if x.t == "Coin" {
			name = strings.ToLower(name)
		}
		return val{s: paren(x.s, x.atom) + "." + name, t: f.ty, atom: true}
	case *ast.UnaryExpr:
		if e.Op == token.NOT {
			x := c.expr(e.X, false)
			c.want(e, x, "Bool")
			return val{s: "!" + paren(x.s, x.atom), t: "Bool"}
		}
	case *ast.BinaryExpr:
		x := c.expr(e.X, false)
		n := len(c.lines)
		y := c.expr(e.Y, false)
		if len(c.lines) != n && e.Op != token.EQL {
			c.no(e.Y, "monadic call in the right operand of a short-circuit operator")
		}
		switch e.Op {
		case token.EQL:
			if _, isEnum := c.enumType(x.t); x.t != y.t || !(isEnum || x.t == "String") {
				c.no(e, "== is only accepted on enum and string operands of the same type")
			}
			return val{s: paren(x.s, x.atom) + " == " + paren(y.s, y.atom), t: "Bool"}
		case token.LOR, token.LAND:
			c.want(e.X, x, "Bool")
			c.want(e.Y, y, "Bool")
			l := paren(x.s, logical(e.X) == token.ILLEGAL || logical(e.X) == e.Op)
			r := paren(y.s, logical(e.Y) == token.ILLEGAL)
			return val{s: l + " " + e.Op.String() + " " + r, t: "Bool"}
		}
	case *ast.CompositeLit:
		id, ok := e.Type.(*ast.Ident)
		if !ok || id.Name == "Coin" || c.p.structs[id.Name] == nil || len(e.Elts) != len(c.p.structs[id.Name]) {
			c.no(e, "composite literal must name every field of a struct of this package")
		}
		var parts []string
		for i, f := range c.p.structs[id.Name] {
			kv, ok := e.Elts[i].(*ast.KeyValueExpr)
			if !ok || !isIdent(kv.Key, f.name) {
				c.no(e, "composite literal fields must be keyed and in declaration order")
			}
			v := c.expr(kv.Value, false)
			c.want(kv, v, f.ty)
			parts = append(parts, f.name+" := "+v.s)
		}
		return val{s: "{ " + strings.Join(parts, ", ") + " }", t: id.Name, atom: true}
	case *ast.CallExpr:
		return c.call(e, top)
	}
	c.no(e, "unsupported expression")
	return val{}
}

func (c *fctx) enumType(t string) (string, bool) {
	for _, et := range c.p.enums {
		if et == t {
			return t, true
		}
	}
	return "", false
}

// call translates calls of the known constructors / methods and of functions translated earlier.
func (c *fctx) call(e *ast.CallExpr, top bool) val {
	if e.Ellipsis.IsValid() {
		c.no(e, "call with ...")
	}
	key, recv := "", ""
	switch f := e.Fun.(type) {
	case *ast.Ident:
		key = f.Name
	case *ast.SelectorExpr:
		if id, ok := f.X.(*ast.Ident); ok && c.env[id.Name] == "" && c.p.imp[id.Name] != "" {
			key = c.p.imp[id.Name] + "." + f.Sel.Name
		} else {
			r := c.expr(f.X, false)
			key, recv = r.t+"."+f.Sel.Name, paren(r.s, r.atom)
		}
	default:
		c.no(e, "unsupported callee")
	}
	var args []val
	for _, a := range e.Args {
		args = append(args, c.expr(a, false))
	}
	if op, ok := compare[key]; ok {
		if len(args)+strings.Count(op, "0") != 1 || (len(args) == 1 && args[0].t != "SInt") {
			c.no(e, "wrong arguments")
		}
		if len(args) == 1 {
			op += " " + paren(args[0].s, args[0].atom)
		}
		return val{s: recv + " " + op, t: "Bool"}
	}
	s, builtin := builtins[key]
	if !builtin {
		var ok bool
		if s, ok = c.p.funcs[key]; !ok {
			c.no(e, "call of an unknown function or method ("+key+")")
		}
	}
	if len(args) != len(s.params) {
		c.no(e, "wrong number of arguments")
	}
	words := []string{s.lean}
	if recv != "" && builtin {
		words = append(words, recv)
	} else if recv != "" {
		words[0] = recv + "." + s.lean
	}
	for i, a := range args {
		c.want(e.Args[i], a, s.params[i])
		words = append(words, paren(a.s, a.atom))
	}
	if strings.HasPrefix(s.lean, ".") { // postfix: strings.ToLower(s) → s.toLower
		words = []string{words[1] + s.lean}
	}
	v := val{s: strings.Join(words, " "), t: s.ret, atom: len(words) == 1, mon: s.mon}
	if s.mon && !top {
		c.ntmp++
		t := "t" + strconv.Itoa(c.ntmp)
		c.lines = append(c.lines, "let "+t+" ← "+v.s)
		v = val{s: t, t: s.ret, atom: true}
	}
	c.mon = c.mon || s.mon
	return v
}

// logical is the operator of a (parenthesised) `||` / `&&` expression, ILLEGAL otherwise.
func logical(e ast.Expr) token.Token {
	for {
		p, ok := e.(*ast.ParenExpr)
		if !ok {
			break
		}
		e = p.X
	}
	if b, ok := e.(*ast.BinaryExpr); ok && (b.Op == token.LOR || b.Op == token.LAND) {
		return b.Op
	}
	return token.ILLEGAL
}

// mentions reports whether the identifier name occurs in n.
func mentions(n ast.Node, name string) bool {
	found := false
	ast.Inspect(n, func(m ast.Node) bool {
		if id, ok := m.(*ast.Ident); ok && id.Name == name {
			found = true
		}
		return !found
	})
	return found
}
