// Command translator re-emits Lean 4 definitions from a deliberately tiny subset of the Go sources of
// the hub repository.  Anything outside the subset is refused (exit status 3); nothing is guessed.
package main

import (
	"bytes"
	"flag"
	"fmt"
	"go/ast"
	"go/parser"
	"go/printer"
	"go/token"
	"os"
	"path"
	"path/filepath"
	"strconv"
	"strings"
)

var (
	fset = token.NewFileSet()
	repo string
)

// generated lists every file this program owns, in the order they are written.
var generated = []string{"Status.lean", "Coin.lean", "Bandwidth.lean", "Keys.lean", "Facts.lean", "Proto.lean"}

func main() {
	out := flag.String("out", "", "output directory (…/Hub/Generated)")
	flag.StringVar(&repo, "repo", "", "root of the Go repository")
	flag.Parse()
	if repo == "" || *out == "" {
		fmt.Fprintln(os.Stderr, "usage: translator -repo DIR -out DIR")
		os.Exit(2)
	}
	for _, name := range generated { // delete first: a refusal must not leave stale output behind
		if err := os.Remove(filepath.Join(*out, name)); err != nil && !os.IsNotExist(err) {
			die(err)
		}
	}
	consts, constLean := genConsts("types/bandwidth.go")
	texts := []string{
		genStatus("types/status.go", "types/status.pb.go", "Status"),
		genCoin("utils/coin.go", consts, constLean),
		genBandwidth("types/bandwidth.go", "types/bandwidth.pb.go", "Bandwidth"),
		genKeys([]string{"deposit", "provider", "node", "plan", "subscription", "session", "swap", "mint"}),
		genFacts(),
		genProto(),
	}
	if err := os.MkdirAll(*out, 0o755); err != nil {
		die(err)
	}
	for i, name := range generated {
		if err := os.WriteFile(filepath.Join(*out, name), []byte(texts[i]), 0o644); err != nil {
			die(err)
		}
	}
}

func die(err error) {
	fmt.Fprintln(os.Stderr, "translator:", err)
	os.Exit(1)
}

// refuse reports a construct outside the accepted subset and exits with status 3.
func refuse(file, fn string, n ast.Node, format string, a ...any) {
	line := ""
	if n != nil {
		line = fmt.Sprintf(":%d", fset.Position(n.Pos()).Line)
	}
	fmt.Fprintf(os.Stderr, "translator: REFUSED %s%s: func %q: %s\n", file, line, fn, fmt.Sprintf(format, a...))
	os.Exit(3)
}

func parse(rel string) *ast.File {
	f, err := parser.ParseFile(fset, filepath.Join(repo, filepath.FromSlash(rel)), nil, parser.SkipObjectResolution)
	if err != nil {
		refuse(rel, "", nil, "cannot parse: %v", err)
	}
	return f
}

// src is the go/printer text of a node, on one line.
func src(n ast.Node) string {
	var b bytes.Buffer
	if err := printer.Fprint(&b, fset, n); err != nil {
		die(err)
	}
	return strings.Join(strings.Fields(b.String()), " ")
}

// kind names a node for refusal messages: its Go AST type and its source text.
func kind(n ast.Node) string {
	s := src(n)
	if len(s) > 80 {
		s = s[:80] + "…"
	}
	return fmt.Sprintf("%s `%s`", strings.TrimPrefix(fmt.Sprintf("%T", n), "*ast."), s)
}

// signature is the declaration of a function without its body.
func signature(d *ast.FuncDecl) string {
	c := *d
	c.Body, c.Doc = nil, nil
	return src(&c)
}

// imports maps the local name of every import of a file to its import path.
func imports(f *ast.File) map[string]string {
	m := map[string]string{}
	for _, s := range f.Imports {
		p, _ := strconv.Unquote(s.Path.Value)
		name := path.Base(p)
		if len(name) > 1 && name[0] == 'v' && strings.Trim(name[1:], "0123456789") == "" {
			name = path.Base(path.Dir(p))
		}
		if s.Name != nil {
			name = s.Name.Name
		}
		m[name] = p
	}
	return m
}

// modulePath reads the module line of the repository's go.mod.
func modulePath() string {
	b, err := os.ReadFile(filepath.Join(repo, "go.mod"))
	if err != nil {
		refuse("go.mod", "", nil, "cannot read: %v", err)
	}
	for _, l := range strings.Split(string(b), "\n") {
		if f := strings.Fields(l); len(f) == 2 && f[0] == "module" {
			return f[1]
		}
	}
	refuse("go.mod", "", nil, "no module line")
	return ""
}

type binder struct{ name, ty string }

// binders renders Lean binders, merging consecutive parameters of the same type.
func binders(bs []binder) string {
	var b strings.Builder
	for i := 0; i < len(bs); {
		j := i
		b.WriteString(" (")
		for ; j < len(bs) && bs[j].ty == bs[i].ty; j++ {
			b.WriteString(bs[j].name + " ")
		}
		b.WriteString(": " + leanType(bs[i].ty) + ")")
		i = j
	}
	return b.String()
}

func leanType(t string) string { return strings.ReplaceAll(t, "String", "_root_.String") }

var reserved = map[string]bool{}

func init() {
	for _, w := range strings.Fields(`at from end to open in do then else if let have show fun match with by where
		namespace section def theorem instance structure class inductive import export variable universe mutual
		return for unless try catch finally using calc suffices deriving extends private protected local macro
		syntax notation infix infixl infixr prefix postfix attribute abbrev example axiom opaque Type Sort Prop`) {
		reserved[w] = true
	}
}

// leanIdent renames Go identifiers that are Lean keywords (`at` → `atT`).
func leanIdent(s string) string {
	if reserved[s] {
		return s + "T"
	}
	return s
}

// leanString renders a string as a Lean string literal.
func leanString(s string) string {
	var b strings.Builder
	b.WriteByte('"')
	for _, r := range s {
		switch {
		case r == '"' || r == '\\':
			b.WriteByte('\\')
			b.WriteRune(r)
		case r == '\n':
			b.WriteString(`\n`)
		case r == '\t':
			b.WriteString(`\t`)
		case r == '\r':
			b.WriteString(`\r`)
		case r < 0x20:
			fmt.Fprintf(&b, `\x%02x`, r)
		default:
			b.WriteRune(r)
		}
	}
	b.WriteByte('"')
	return b.String()
}

// paren wraps a non-atomic Lean term for use as an argument.
func paren(s string, atom bool) string {
	if atom {
		return s
	}
	return "(" + s + ")"
}

// intLit is the value of an integer literal (refused otherwise).
func intLit(file, fn string, e ast.Expr) uint64 {
	if l, ok := e.(*ast.BasicLit); ok && l.Kind == token.INT {
		if v, err := strconv.ParseUint(l.Value, 0, 64); err == nil {
			return v
		}
	}
	refuse(file, fn, e, "expected an integer literal, got %s", kind(e))
	return 0
}

func isIdent(e ast.Expr, name string) bool {
	id, ok := e.(*ast.Ident)
	return ok && id.Name == name
}
