// Command probe19 prints the C19 differential-probe lines (see package probe19).
//
//	probe19 -seed 1 -n 2000 [-type substring] [-core] > lines.txt
//	probe19 -decode -seed 1 -n 2000 > decode-lines.txt
package main

import (
	"flag"
	"fmt"
	"os"

	"verif/harness/probe19"
)

func main() {
	seed := flag.Int64("seed", 1, "random seed")
	n := flag.Int("n", 2000, "number of values (distributed round-robin over the covered types)")
	filter := flag.String("type", "", "only types whose proto name contains this substring")
	core := flag.Bool("core", false, "only the core types (current-version msgs, stored records, params, genesis; marked * in the type list)")
	decode := flag.Bool("decode", false, "decode probe: mutate the real bytes, print `pbd <name> <hex> => <decoded value text>|err:...`")
	flag.Parse()

	if *decode {
		if err := probe19.RunDecode(probe19.Config{Seed: *seed, N: *n, Filter: *filter, Core: *core, Out: os.Stdout, Log: os.Stderr}); err != nil {
			fmt.Fprintln(os.Stderr, "probe19: ERROR:", err)
			os.Exit(1)
		}
		return
	}

	err := probe19.Run(probe19.Config{Seed: *seed, N: *n, Filter: *filter, Core: *core, Out: os.Stdout, Log: os.Stderr})
	if err != nil {
		fmt.Fprintln(os.Stderr, "probe19: ERROR:", err)
		os.Exit(1)
	}
}
