// hubsim: correspondence harness for the sentinel hub (T-corr).
//
//	hubsim run  < ops            execute an operation file against the real application
//	hubsim run -tx < ops         the same, every `tx` of a keyed sender as a signed transaction through DeliverTx
//	hubsim gen  -seed N -ops K   generate a history adaptively (reads the real state) and print the ops
package main

import (
	"flag"
	"fmt"
	"os"

	"verif/harness/sim"
)

func main() {
	if len(os.Args) < 2 {
		fmt.Fprintln(os.Stderr, "usage: hubsim run|gen ...")
		os.Exit(2)
	}
	switch os.Args[1] {
	case "run":
		fs := flag.NewFlagSet("run", flag.ExitOnError)
		noDump := fs.Bool("nodump", false, "do not print state dumps")
		txMode := fs.Bool("tx", false, "tx mode: signed transactions through DeliverTx and the ante handler (sim/txmode.go)")
		fs.Parse(os.Args[2:])
		r := sim.NewRunner(os.Stdout)
		r.NoDump = *noDump
		r.TxMode = *txMode
		if err := r.Run(os.Stdin); err != nil {
			r.Out.Flush()
			fmt.Fprintln(os.Stderr, "hubsim:", err)
			os.Exit(2)
		}
		r.Out.Flush()
		if r.Sim != nil {
			r.Sim.Close()
		}
	case "paramrt":
		fs := flag.NewFlagSet("paramrt", flag.ExitOnError)
		seed := fs.Int64("seed", 1, "PRNG seed")
		n := fs.Int("n", 200, "rounds")
		fs.Parse(os.Args[2:])
		lines, err := sim.ParamRoundTrip(*seed, *n)
		if err != nil {
			fmt.Fprintln(os.Stderr, "hubsim:", err)
			os.Exit(2)
		}
		for _, l := range lines {
			fmt.Println(l)
		}
	case "gen":
		fs := flag.NewFlagSet("gen", flag.ExitOnError)
		seed := fs.Int64("seed", 1, "PRNG seed")
		blocks := fs.Int("blocks", 50, "number of blocks")
		profile := fs.String("profile", "lifecycle", "generator profile")
		opsPath := fs.String("ops", "", "file to write the operation lines to")
		fs.Parse(os.Args[2:])
		r := sim.NewRunner(os.Stdout)
		g := sim.NewGen(*seed, *profile, r)
		err := g.Setup()
		for i := 0; err == nil && i < *blocks && r.Sim.Halted == ""; i++ {
			crashed := false
			func() {
				// a panic of the real code inside one of the generator's own reads of the state (a listing getter
				// meeting a dangling index entry ...) is recorded as the operation `inspect`, which repeats those
				// reads under recover; the history ends there
				defer func() {
					if x := recover(); x != nil {
						crashed = true
						fmt.Fprintln(os.Stderr, "hubsim: generator read panicked:", x)
					}
				}()
				err = g.Block()
			}()
			if crashed {
				err = g.Inspect()
				break
			}
		}
		r.Out.Flush()
		if *opsPath != "" {
			f, ferr := os.Create(*opsPath)
			if ferr != nil {
				fmt.Fprintln(os.Stderr, "hubsim:", ferr)
				os.Exit(2)
			}
			for _, l := range g.Ops {
				fmt.Fprintln(f, l)
			}
			f.Close()
		}
		if r.Sim != nil {
			r.Sim.Close()
		}
		if err != nil {
			fmt.Fprintln(os.Stderr, "hubsim:", err)
			os.Exit(2)
		}
	default:
		fmt.Fprintln(os.Stderr, "unknown command", os.Args[1])
		os.Exit(2)
	}
}
