// probe: pure-function differential runner (T-corr for C13, C16, C17).
// For every generated case it writes the case line to -cases and the real implementation's answer to
// stdout; the same case lines are answered by the Lean model (`hubmodel --probe`) and compared.
package main

import (
	"bufio"
	"encoding/hex"
	"flag"
	"fmt"
	"math/big"
	"math/rand"
	"os"
	"sort"
	"strings"
	"time"

	sdkmath "cosmossdk.io/math"
	dbm "github.com/cometbft/cometbft-db"
	"github.com/cosmos/cosmos-sdk/store/dbadapter"
	"github.com/cosmos/cosmos-sdk/store/prefix"
	sdk "github.com/cosmos/cosmos-sdk/types"
	"github.com/cosmos/cosmos-sdk/types/bech32"
	"github.com/cosmos/cosmos-sdk/types/query"

	hubtypes "github.com/sentinel-official/hub/v12/types"
	hubutils "github.com/sentinel-official/hub/v12/utils"
	deposittypes "github.com/sentinel-official/hub/v12/x/deposit/types"
	minttypes "github.com/sentinel-official/hub/v12/x/mint/types"
	nodetypes "github.com/sentinel-official/hub/v12/x/node/types"
	plantypes "github.com/sentinel-official/hub/v12/x/plan/types"
	providertypes "github.com/sentinel-official/hub/v12/x/provider/types"
	sessiontypes "github.com/sentinel-official/hub/v12/x/session/types"
	subscriptiontypes "github.com/sentinel-official/hub/v12/x/subscription/types"
	swaptypes "github.com/sentinel-official/hub/v12/x/swap/types"
)

var r *rand.Rand

func pow2(k int) *big.Int { return new(big.Int).Lsh(big.NewInt(1), uint(k)) }

// bigVal returns a boundary-biased non-negative integer below 2^bits.
func bigVal(bits int) *big.Int {
	switch r.Intn(10) {
	case 0:
		return big.NewInt(0)
	case 1:
		return big.NewInt(1)
	case 2:
		k := r.Intn(bits + 1)
		v := pow2(k)
		v.Add(v, big.NewInt(int64(r.Intn(3)-1)))
		if v.Sign() < 0 || v.BitLen() > bits {
			return pow2(bits - 1)
		}
		return v
	case 3:
		// powers of ten and neighbours
		v := new(big.Int).Exp(big.NewInt(10), big.NewInt(int64(r.Intn(39))), nil)
		v.Add(v, big.NewInt(int64(r.Intn(3)-1)))
		if v.BitLen() > bits {
			return pow2(bits - 1)
		}
		return v
	case 4:
		return big.NewInt(r.Int63n(2000000000))
	case 5:
		// half-way cases for rounding: k*10^18/2 style values
		v := new(big.Int).Mul(big.NewInt(r.Int63n(1000)), new(big.Int).Exp(big.NewInt(10), big.NewInt(17), nil))
		return v.Mul(v, big.NewInt(5))
	}
	v := new(big.Int).Rand(r, pow2(1+r.Intn(bits)))
	return v
}

func try(f func() string) (out string) {
	defer func() {
		if x := recover(); x != nil {
			out = "panic"
		}
	}()
	return f()
}

func hx(b []byte) string {
	if len(b) == 0 {
		return "-"
	}
	return hex.EncodeToString(b)
}

func main() {
	prop := flag.String("prop", "C16", "property")
	seed := flag.Int64("seed", 1, "seed")
	n := flag.Int("n", 1000, "number of cases")
	casesPath := flag.String("cases", "", "file for the case lines")
	flag.Parse()
	r = rand.New(rand.NewSource(*seed))
	cf, err := os.Create(*casesPath)
	if err != nil {
		fmt.Fprintln(os.Stderr, err)
		os.Exit(2)
	}
	cw := bufio.NewWriter(cf)
	ow := bufio.NewWriter(os.Stdout)
	defer func() { cw.Flush(); cf.Close(); ow.Flush() }()
	emit := func(c, o string) { fmt.Fprintln(cw, c); fmt.Fprintln(ow, o) }

	cfg := hubtypes.GetConfig()
	cfg.SetBech32PrefixForAccount(hubtypes.Bech32PrefixAccAddr, hubtypes.Bech32PrefixAccPub)
	cfg.SetBech32PrefixForProvider(hubtypes.Bech32PrefixProvAddr, hubtypes.Bech32PrefixProvPub)
	cfg.SetBech32PrefixForNode(hubtypes.Bech32PrefixNodeAddr, hubtypes.Bech32PrefixNodePub)

	for i := 0; i < *n; i++ {
		switch *prop {
		case "C16":
			switch r.Intn(8) {
			case 0, 1, 2:
				p, b := bigVal(130), bigVal(130)
				emit(fmt.Sprintf("afb p=%s b=%s", p, b), try(func() string {
					return "ok " + hubutils.AmountForBytes(sdkmath.NewIntFromBigInt(p), sdkmath.NewIntFromBigInt(b)).String()
				}))
			case 3, 4:
				a := bigVal(200)
				s := bigVal(60)
				one := new(big.Int).Exp(big.NewInt(10), big.NewInt(18), nil)
				if s.Cmp(one) > 0 && r.Intn(4) != 0 {
					s.Mod(s, new(big.Int).Add(one, big.NewInt(1)))
				}
				emit(fmt.Sprintf("prop a=%s s=%s", a, s), try(func() string {
					c := hubutils.GetProportionOfCoin(sdk.NewCoin("udvpn", sdkmath.NewIntFromBigInt(a)), sdkmath.LegacyNewDecFromBigIntWithPrec(s, 18))
					return "ok " + c.Amount.String()
				}))
			case 5:
				up, down, pre := bigVal(200), bigVal(200), bigVal(70)
				if r.Intn(6) == 0 {
					pre = big.NewInt(int64(-r.Intn(3)))
				}
				if r.Intn(3) == 0 {
					// machine-word boundaries: values just below / at / above 2^64, 2^63, 2^32 with small precisions
					word := func() *big.Int {
						v := pow2([]int{64, 64, 64, 63, 32, 128}[r.Intn(6)])
						return v.Sub(v, big.NewInt(int64(r.Intn(2001)-1000)))
					}
					up, down = word(), word()
					pre = big.NewInt([]int64{1, 2, 3, 17, 1000, 1000000000, 4294967296}[r.Intn(7)])
				}
				emit(fmt.Sprintf("ceilto up=%s down=%s pre=%s", up, down, pre), try(func() string {
					b := hubtypes.NewBandwidth(sdkmath.NewIntFromBigInt(up), sdkmath.NewIntFromBigInt(down)).CeilTo(sdkmath.NewIntFromBigInt(pre))
					return "ok " + b.Upload.String() + " " + b.Download.String()
				}))
			case 6:
				// the dependency model itself: LegacyDec.Mul / Ceil / RoundInt / TruncateInt on raw 18-decimal integers
				a, b := bigVal(300), bigVal(120)
				if r.Intn(3) == 0 {
					a.Neg(a)
				}
				emit(fmt.Sprintf("decmul a=%s b=%s", a, b), try(func() string {
					return "ok " + sdkmath.LegacyNewDecFromBigIntWithPrec(a, 18).Mul(sdkmath.LegacyNewDecFromBigIntWithPrec(b, 18)).BigInt().String()
				}))
			case 7:
				a := bigVal(316)
				if r.Intn(3) == 0 {
					a.Neg(a)
				}
				emit(fmt.Sprintf("decround a=%s", a), try(func() string {
					d := sdkmath.LegacyNewDecFromBigIntWithPrec(a, 18)
					c := try(func() string { return d.Ceil().BigInt().String() })
					ri := try(func() string { return d.RoundInt().String() })
					ti := try(func() string { return d.TruncateInt().String() })
					return "ok " + c + " " + ri + " " + ti
				}))
			}
		case "C17":
			if r.Intn(6) == 0 {
				// the repository's decoders on keys built by its own constructors (addresses up to 255 bytes)
				mk := func() []byte {
					ln := []int{1, 2, 20, 32, 127, 128, 253, 254, 255}[r.Intn(9)]
					bz := make([]byte, ln)
					r.Read(bz)
					return bz
				}
				a, b := mk(), mk()
				i, j := []uint64{0, 1, 255, 256, 1<<32 - 1, 1 << 32, 1<<63 - 1, 1 << 63, 1<<64 - 1}[r.Intn(9)], uint64(r.Int63())
				t := boundaryTime()
				sec, ns := new(big.Int), new(big.Int)
				sec.DivMod(t, big.NewInt(1000000000), ns)
				tm := time.Unix(sec.Int64(), ns.Int64()).UTC()
				fn := []string{"subscription.IDFromPayoutForAccountByNodeKey", "subscription.IDFromSubscriptionForAccountKey", "subscription.AccAddrFromSubscriptionForAccountKey",
					"subscription.IDFromPayoutForNextAtKey", "session.IDFromSessionForAllocationKey", "session.IDFromSessionForAccountKey", "node.AddressFromNodeForPlanKey",
					"node.AddressFromNodeForInactiveAtKey", "plan.IDFromPlanForProviderKey", "subscription.IDFromSubscriptionForInactiveAtKey",
					"session.IDFromSessionForNodeKey", "session.IDFromSessionForSubscriptionKey", "session.IDFromSessionForInactiveAtKey",
					"subscription.IDFromSubscriptionForNodeKey", "subscription.IDFromSubscriptionForPlanKey", "subscription.IDFromPayoutForAccountKey",
					"subscription.IDFromPayoutForNodeKey"}[r.Intn(17)]
				emit(fmt.Sprintf("dec f=%s t=%s a=%s b=%s i=%d j=%d", fn, t.String(), hx(a), hx(b), i, j), try(func() string {
					switch fn {
					case "subscription.IDFromPayoutForAccountByNodeKey":
						return fmt.Sprintf("ok %d", subscriptiontypes.IDFromPayoutForAccountByNodeKey(subscriptiontypes.PayoutForAccountByNodeKey(a, b, i)))
					case "subscription.IDFromSubscriptionForAccountKey":
						return fmt.Sprintf("ok %d", subscriptiontypes.IDFromSubscriptionForAccountKey(subscriptiontypes.SubscriptionForAccountKey(a, i)))
					case "subscription.AccAddrFromSubscriptionForAccountKey":
						return "ok " + hx(subscriptiontypes.AccAddrFromSubscriptionForAccountKey(subscriptiontypes.SubscriptionForAccountKey(a, i)))
					case "subscription.IDFromPayoutForNextAtKey":
						return fmt.Sprintf("ok %d", subscriptiontypes.IDFromPayoutForNextAtKey(subscriptiontypes.PayoutForNextAtKey(tm, i)))
					case "session.IDFromSessionForAllocationKey":
						return fmt.Sprintf("ok %d", sessiontypes.IDFromSessionForAllocationKey(sessiontypes.SessionForAllocationKey(i, a, j)))
					case "session.IDFromSessionForAccountKey":
						return fmt.Sprintf("ok %d", sessiontypes.IDFromSessionForAccountKey(sessiontypes.SessionForAccountKey(a, i)))
					case "node.AddressFromNodeForPlanKey":
						return "ok " + hx(nodetypes.AddressFromNodeForPlanKey(nodetypes.NodeForPlanKey(i, a)))
					case "node.AddressFromNodeForInactiveAtKey":
						return "ok " + hx(nodetypes.AddressFromNodeForInactiveAtKey(nodetypes.NodeForInactiveAtKey(tm, a)))
					case "plan.IDFromPlanForProviderKey":
						return fmt.Sprintf("ok %d", plantypes.IDFromPlanForProviderKey(plantypes.PlanForProviderKey(a, i)))
					case "subscription.IDFromSubscriptionForInactiveAtKey":
						return fmt.Sprintf("ok %d", subscriptiontypes.IDFromSubscriptionForInactiveAtKey(subscriptiontypes.SubscriptionForInactiveAtKey(tm, i)))
					case "session.IDFromSessionForNodeKey":
						return fmt.Sprintf("ok %d", sessiontypes.IDFromSessionForNodeKey(sessiontypes.SessionForNodeKey(a, i)))
					case "session.IDFromSessionForSubscriptionKey":
						return fmt.Sprintf("ok %d", sessiontypes.IDFromSessionForSubscriptionKey(sessiontypes.SessionForSubscriptionKey(j, i)))
					case "session.IDFromSessionForInactiveAtKey":
						return fmt.Sprintf("ok %d", sessiontypes.IDFromSessionForInactiveAtKey(sessiontypes.SessionForInactiveAtKey(tm, i)))
					case "subscription.IDFromSubscriptionForNodeKey":
						return fmt.Sprintf("ok %d", subscriptiontypes.IDFromSubscriptionForNodeKey(subscriptiontypes.SubscriptionForNodeKey(a, i)))
					case "subscription.IDFromSubscriptionForPlanKey":
						return fmt.Sprintf("ok %d", subscriptiontypes.IDFromSubscriptionForPlanKey(subscriptiontypes.SubscriptionForPlanKey(j, i)))
					case "subscription.IDFromPayoutForAccountKey":
						return fmt.Sprintf("ok %d", subscriptiontypes.IDFromPayoutForAccountKey(subscriptiontypes.PayoutForAccountKey(a, i)))
					case "subscription.IDFromPayoutForNodeKey":
						return fmt.Sprintf("ok %d", subscriptiontypes.IDFromPayoutForNodeKey(subscriptiontypes.PayoutForNodeKey(a, i)))
					}
					return "bad"
				}))
				continue
			}
			if r.Intn(3) == 0 {
				// the repository's own key constructors on boundary arguments (all component shapes:
				// time|addr, time|id, id|addr, addr|id, addr|addr|id, id|addr|id, addr, time)
				t := boundaryTime()
				sec, ns := new(big.Int), new(big.Int)
				sec.DivMod(t, big.NewInt(1000000000), ns)
				tm := time.Unix(sec.Int64(), ns.Int64()).UTC()
				mk := func() []byte {
					ln := []int{1, 2, 19, 20, 21, 32, 255}[r.Intn(7)]
					bz := make([]byte, ln)
					r.Read(bz)
					if r.Intn(4) == 0 {
						for j := range bz {
							bz[j] = []byte{0x00, 0xff, 0x03}[r.Intn(3)]
						}
					}
					return bz
				}
				a, b := mk(), mk()
				i, j := []uint64{0, 1, 255, 256, 1<<32 - 1, 1 << 32, 1<<63 - 1, 1 << 63, 1<<64 - 1}[r.Intn(9)], uint64(r.Int63())
				fn := []string{"node.NodeForInactiveAtKey", "subscription.SubscriptionForInactiveAtKey", "subscription.PayoutForNextAtKey",
					"session.SessionForInactiveAtKey", "mint.InflationKey", "subscription.AllocationKey", "session.SessionForAllocationKey",
					"subscription.PayoutForAccountByNodeKey", "plan.PlanForProviderKey", "node.NodeForPlanKey", "deposit.DepositKey",
					"node.ActiveNodeKey", "node.InactiveNodeKey", "provider.ActiveProviderKey", "provider.InactiveProviderKey", "plan.ActivePlanKey", "swap.SwapKey"}[r.Intn(17)]
				if r.Intn(2) == 0 {
					a = a[:1+r.Intn(min(len(a), 6))] // short addresses as well
				}
				emit(fmt.Sprintf("key f=%s t=%s a=%s b=%s i=%d j=%d", fn, t.String(), hx(a), hx(b), i, j), try(func() string {
					build := func(tm time.Time, a, b []byte, i, j uint64) []byte {
						switch fn {
						case "node.ActiveNodeKey":
							return nodetypes.ActiveNodeKey(a)
						case "node.InactiveNodeKey":
							return nodetypes.InactiveNodeKey(a)
						case "provider.ActiveProviderKey":
							return providertypes.ActiveProviderKey(a)
						case "provider.InactiveProviderKey":
							return providertypes.InactiveProviderKey(a)
						case "plan.ActivePlanKey":
							return plantypes.ActivePlanKey(i)
						case "swap.SwapKey":
							return swaptypes.SwapKey(swaptypes.BytesToHash(a))
						case "node.NodeForInactiveAtKey":
							return nodetypes.NodeForInactiveAtKey(tm, a)
						case "subscription.SubscriptionForInactiveAtKey":
							return subscriptiontypes.SubscriptionForInactiveAtKey(tm, i)
						case "subscription.PayoutForNextAtKey":
							return subscriptiontypes.PayoutForNextAtKey(tm, i)
						case "session.SessionForInactiveAtKey":
							return sessiontypes.SessionForInactiveAtKey(tm, i)
						case "mint.InflationKey":
							return minttypes.InflationKey(tm)
						case "subscription.AllocationKey":
							return subscriptiontypes.AllocationKey(i, a)
						case "session.SessionForAllocationKey":
							return sessiontypes.SessionForAllocationKey(i, a, j)
						case "subscription.PayoutForAccountByNodeKey":
							return subscriptiontypes.PayoutForAccountByNodeKey(a, b, i)
						case "plan.PlanForProviderKey":
							return plantypes.PlanForProviderKey(a, i)
						case "node.NodeForPlanKey":
							return nodetypes.NodeForPlanKey(i, a)
						case "deposit.DepositKey":
							return deposittypes.DepositKey(a)
						}
						return nil
					}
					k1 := build(tm, a, b, i, j)
					// a key must still be what it was after another key of the same kind has been built
					_ = build(tm.Add(time.Second), b, a, j, i)
					return "ok " + hx(k1)
				}))
				continue
			}
			switch r.Intn(4) {
			case 0, 1:
				role := []string{"acc", "node", "prov"}[r.Intn(3)]
				ln := []int{1, 2, 19, 20, 21, 32, 33, 64, 254, 255, 256, 0}[r.Intn(12)]
				if r.Intn(3) == 0 {
					ln = 1 + r.Intn(255)
				}
				bz := make([]byte, ln)
				r.Read(bz)
				if r.Intn(5) == 0 {
					for j := range bz {
						bz[j] = []byte{0x00, 0xff}[r.Intn(2)]
					}
				}
				text := addrText(role, bz)
				emit(fmt.Sprintf("b32enc role=%s bytes=%s", role, hx(bz)), "text="+text)
				// decode under a (possibly different) role, possibly mutated
				role2 := role
				if r.Intn(3) == 0 {
					role2 = []string{"acc", "node", "prov"}[r.Intn(3)]
				}
				t2 := text
				switch r.Intn(8) {
				case 0:
					t2 = strings.ToUpper(t2)
				case 1:
					if len(t2) > 0 {
						k := r.Intn(len(t2))
						t2 = t2[:k] + string("qpzry9x8gf2tvdw0s3jn54khce6mua7l"[r.Intn(32)]) + t2[k+1:]
					}
				case 2:
					if len(t2) > 2 {
						t2 = t2[:len(t2)-1]
					}
				}
				if t2 != "" && !strings.ContainsAny(t2, " \t\n") {
					emit(fmt.Sprintf("b32dec role=%s text=%s", role2, t2), addrParse(role2, t2))
				}
			case 2, 3:
				// time formatting on boundary-dense instants (years 1..9999)
				t := boundaryTime()
				emit(fmt.Sprintf("fmt t=%s", t.String()), try(func() string {
					sec := new(big.Int)
					ns := new(big.Int)
					sec.DivMod(t, big.NewInt(1000000000), ns)
					return "ok " + hx(sdk.FormatTimeBytes(time.Unix(sec.Int64(), ns.Int64()).UTC()))
				}))
			}
		case "C13":
			c, o := pageCase()
			emit(c, o)
		default:
			fmt.Fprintln(os.Stderr, "unknown property", *prop)
			os.Exit(2)
		}
	}
}

func addrText(role string, bz []byte) string {
	switch role {
	case "acc":
		return sdk.AccAddress(bz).String()
	case "node":
		return hubtypes.NodeAddress(bz).String()
	}
	return hubtypes.ProvAddress(bz).String()
}

func addrParse(role, text string) string {
	return try(func() string {
		var bz []byte
		var err error
		switch role {
		case "acc":
			var a sdk.AccAddress
			a, err = sdk.AccAddressFromBech32(text)
			bz = a
		case "node":
			var a hubtypes.NodeAddress
			a, err = hubtypes.NodeAddressFromBech32(text)
			bz = a
		default:
			var a hubtypes.ProvAddress
			a, err = hubtypes.ProvAddressFromBech32(text)
			bz = a
		}
		if err != nil {
			return "err"
		}
		return "bytes=" + hx(bz)
	})
}

var _ = bech32.ConvertAndEncode

func boundaryTime() *big.Int {
	// seconds in [year 1, year 9999]
	lo, hi := int64(-62135596800), int64(253402300799)
	var sec int64
	switch r.Intn(6) {
	case 0:
		sec = lo + r.Int63n(1000)
	case 1:
		sec = hi - r.Int63n(1000)
	case 2:
		// around a day / month / year / century boundary
		y := 1 + r.Intn(9999)
		m := time.Month(1 + r.Intn(12))
		d := []int{1, 28, 29, 30, 31}[r.Intn(5)]
		sec = time.Date(y, m, d, 0, 0, 0, 0, time.UTC).Unix() + int64(r.Intn(3)-1)
	case 3:
		sec = time.Date(1600+400*r.Intn(5), time.Month(2+r.Intn(2)), 1, 0, 0, 0, 0, time.UTC).Unix() - int64(r.Intn(3)*86400)
	default:
		sec = lo + r.Int63n(hi-lo)
	}
	if sec < lo {
		sec = lo
	}
	if sec > hi {
		sec = hi
	}
	ns := []int64{0, 1, 999999999, 500000000, r.Int63n(1000000000)}[r.Intn(5)]
	v := new(big.Int).Mul(big.NewInt(sec), big.NewInt(1000000000))
	return v.Add(v, big.NewInt(ns))
}

// pageCase builds one paginator case and runs the real query.Paginate / FilteredPaginate on a real
// prefix store with the three callback shapes of the hub's query handlers.
func pageCase() (string, string) {
	nkeys := r.Intn(7)
	if r.Intn(20) == 0 {
		nkeys = 99 + r.Intn(8)
	}
	keyset := map[string]bool{}
	for len(keyset) < nkeys {
		ln := 1 + r.Intn(3)
		k := make([]byte, ln)
		for j := range k {
			k[j] = byte(r.Intn(4))
			if r.Intn(8) == 0 {
				k[j] = 0xff
			}
		}
		keyset[string(k)] = true
	}
	var keys []string
	for k := range keyset {
		keys = append(keys, k)
	}
	sort.Strings(keys)
	match := make([]byte, len(keys))
	for j := range match {
		match[j] = '0' + byte(r.Intn(4)+1)/2%2
		if r.Intn(3) != 0 {
			match[j] = '1'
		}
	}
	kind := []string{"plain", "filter", "gated"}[r.Intn(3)]
	req := &query.PageRequest{}
	keyField := "-"
	switch r.Intn(4) {
	case 0:
		if len(keys) > 0 {
			req.Key = []byte(keys[r.Intn(len(keys))])
			keyField = hx(req.Key)
		}
	case 1:
		req.Key = []byte{byte(r.Intn(4)), byte(r.Intn(4))}
		keyField = hx(req.Key)
	}
	if r.Intn(3) == 0 {
		req.Offset = uint64(r.Intn(5))
	}
	req.Limit = []uint64{0, 1, 1, 2, 3, 5, 100, ^uint64(0)}[r.Intn(8)]
	req.CountTotal = r.Intn(2) == 0
	req.Reverse = r.Intn(4) == 0
	var hk []string
	for _, k := range keys {
		hk = append(hk, hx([]byte(k)))
	}
	ks := "-"
	if len(hk) > 0 {
		ks = strings.Join(hk, ",")
	}
	ms := string(match)
	if ms == "" {
		ms = "-"
	}
	line := fmt.Sprintf("page kind=%s keys=%s match=%s key=%s offset=%d limit=%d total=%d reverse=%d", kind, ks, ms, keyField, req.Offset, req.Limit, b2i(req.CountTotal), b2i(req.Reverse))

	db := dbm.NewMemDB()
	root := dbadapter.Store{DB: db}
	st := prefix.NewStore(root, []byte{0x42, 0x01})
	// neighbours outside the prefix
	root.Set([]byte{0x42, 0x00, 0x01}, []byte{0xee})
	root.Set([]byte{0x42, 0x02}, []byte{0xee})
	idx := map[string]int{}
	for j, k := range keys {
		st.Set([]byte(k), []byte{byte(j)})
		idx[k] = j
	}
	var items []string
	out := try(func() string {
		var res *query.PageResponse
		var err error
		switch kind {
		case "plain":
			res, err = query.Paginate(st, req, func(key, value []byte) error {
				items = append(items, hx(key))
				return nil
			})
		case "filter":
			res, err = query.FilteredPaginate(st, req, func(key, value []byte, accumulate bool) (bool, error) {
				hit := match[idx[string(key)]] == '1'
				if hit && accumulate {
					items = append(items, hx(key))
				}
				return hit, nil
			})
		case "gated":
			res, err = query.FilteredPaginate(st, req, func(key, value []byte, accumulate bool) (bool, error) {
				if !accumulate {
					return false, nil
				}
				if match[idx[string(key)]] == '1' {
					items = append(items, hx(key))
					return true, nil
				}
				return false, nil
			})
		}
		if err != nil {
			return "items=- next=- total=0 err=1"
		}
		is := "-"
		if len(items) > 0 {
			is = strings.Join(items, ",")
		}
		return fmt.Sprintf("items=%s next=%s total=%d err=0", is, hx(res.NextKey), res.Total)
	})
	if out == "panic" {
		out = "items=- next=- total=0 err=1"
	}
	return line, out
}

func b2i(b bool) int {
	if b {
		return 1
	}
	return 0
}
