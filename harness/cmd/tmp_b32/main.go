package main

import (
	"bufio"
	"encoding/hex"
	"fmt"
	"os"
	"strings"

	btc "github.com/cosmos/btcutil/bech32"
	sdk "github.com/cosmos/cosmos-sdk/types"
	sdkbech32 "github.com/cosmos/cosmos-sdk/types/bech32"
	hubtypes "github.com/sentinel-official/hub/v12/types"
)

func field(parts []string, k string) string {
	for _, p := range parts {
		if strings.HasPrefix(p, k+"=") {
			return p[len(k)+1:]
		}
	}
	return ""
}

func main() {
	_ = hubtypes.GetConfig()
	sc := bufio.NewScanner(os.Stdin)
	sc.Buffer(make([]byte, 1<<20), 1<<20)
	for sc.Scan() {
		line := sc.Text()
		// text may contain spaces: split only the first two fields
		parts := strings.SplitN(line, " ", 3)
		if len(parts) < 3 {
			fmt.Println("err")
			continue
		}
		role := field(parts[1:2], "role")
		switch parts[0] {
		case "b32enc":
			hx := field(parts[2:3], "bytes")
			if hx == "-" {
				hx = ""
			}
			bz, err := hex.DecodeString(hx)
			if err != nil {
				fmt.Println("err")
				continue
			}
			var s string
			switch role {
			case "acc":
				s = sdk.AccAddress(bz).String()
			case "node":
				s = hubtypes.NodeAddress(bz).String()
			case "prov":
				s = hubtypes.ProvAddress(bz).String()
			}
			fmt.Println("text=" + s)
		case "b32dec":
			txt := strings.TrimPrefix(parts[2], "text=")
			var bz []byte
			var err error
			switch role {
			case "acc":
				var a sdk.AccAddress
				a, err = sdk.AccAddressFromBech32(txt)
				bz = a
			case "node":
				var a hubtypes.NodeAddress
				a, err = hubtypes.NodeAddressFromBech32(txt)
				bz = a
			case "prov":
				var a hubtypes.ProvAddress
				a, err = hubtypes.ProvAddressFromBech32(txt)
				bz = a
			}
			if err != nil {
				fmt.Println("err")
			} else if len(bz) == 0 {
				fmt.Println("bytes=-")
			} else {
				fmt.Println("bytes=" + hex.EncodeToString(bz))
			}
		case "raw":
			txt := strings.TrimPrefix(parts[2], "text=")
			hrp, bz, err := sdkbech32.DecodeAndConvert(txt)
			if err != nil {
				fmt.Println("err")
			} else {
				fmt.Println("hrp=" + hrp + " bytes=" + hex.EncodeToString(bz))
			}
		case "enc5":
			hrp := field(parts[1:2], "hrp")
			bz, _ := hex.DecodeString(field(parts[2:3], "data"))
			s, err := btc.Encode(hrp, bz)
			if err != nil {
				fmt.Println("err")
			} else {
				fmt.Println("text=" + s)
			}
		default:
			fmt.Println("err")
		}
	}
}
