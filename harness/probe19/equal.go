package probe19

import (
	"fmt"
	"math/big"
	"reflect"
	"time"

	sdkmath "cosmossdk.io/math"
)

// Names of the declared identifications, as counted in the summary.
const (
	identNilSlice = "nil-slice==empty-slice"
	identNilBytes = "nil-bytes==empty-bytes"
	identNilInt   = "nil-Int==0"
	identNilDec   = "nil-Dec==0"
	identTime     = "time-by-instant(location/representation)"
	identAnyCache = "Any-by-TypeUrl+Value(cached-value-ignored)"
)

// differ compares two values modulo the declared identifications and records
// which identifications were actually needed.
type differ struct {
	idents map[string]int
}

func (d *differ) used(name string) {
	if d.idents == nil {
		d.idents = map[string]int{}
	}
	d.idents[name]++
}

// equalMod reports whether a and b are equal modulo the declared
// identifications:
//   - nil slice == empty slice (also []byte),
//   - nil sdkmath.Int / LegacyDec == 0,
//   - time.Time compared by instant (t.Equal),
//   - codectypes.Any compared by TypeUrl and Value only.
func equalMod(a, b reflect.Value) bool { return new(differ).diff(a, b, "") == "" }

// diff returns "" if a and b are equal modulo the identifications, else the
// path of the first difference.
func (d *differ) diff(a, b reflect.Value, path string) string {
	if a.Type() != b.Type() {
		return path + "(type)"
	}
	switch a.Type() {
	case tInt:
		x, y := a.Interface().(sdkmath.Int), b.Interface().(sdkmath.Int)
		// NB: x.Equal(y) panics on a nil Int
		if bigOrZero(x.IsNil(), x.BigInt).Cmp(bigOrZero(y.IsNil(), y.BigInt)) != 0 {
			return path
		}
		if x.IsNil() != y.IsNil() {
			d.used(identNilInt)
		}
		return ""
	case tDec:
		x, y := a.Interface().(sdkmath.LegacyDec), b.Interface().(sdkmath.LegacyDec)
		if bigOrZero(x.IsNil(), x.BigInt).Cmp(bigOrZero(y.IsNil(), y.BigInt)) != 0 {
			return path
		}
		if x.IsNil() != y.IsNil() {
			d.used(identNilDec)
		}
		return ""
	case tTime:
		x, y := a.Interface().(time.Time), b.Interface().(time.Time)
		if !x.Equal(y) {
			return path
		}
		if !reflect.DeepEqual(x, y) {
			d.used(identTime)
		}
		return ""
	case tAny:
		if a.FieldByName("TypeUrl").String() != b.FieldByName("TypeUrl").String() {
			return path + ".TypeUrl"
		}
		av, bv := a.FieldByName("Value"), b.FieldByName("Value")
		if string(av.Bytes()) != string(bv.Bytes()) {
			return path + ".Value"
		}
		if av.IsNil() != bv.IsNil() {
			d.used(identNilBytes)
			// compare the rest with Value normalised
		}
		if !anyStrictEqual(a, b) {
			d.used(identAnyCache)
		}
		return ""
	}
	switch a.Kind() {
	case reflect.Bool:
		if a.Bool() != b.Bool() {
			return path
		}
	case reflect.Int, reflect.Int8, reflect.Int16, reflect.Int32, reflect.Int64:
		if a.Int() != b.Int() {
			return path
		}
	case reflect.Uint, reflect.Uint8, reflect.Uint16, reflect.Uint32, reflect.Uint64:
		if a.Uint() != b.Uint() {
			return path
		}
	case reflect.String:
		if a.String() != b.String() {
			return path
		}
	case reflect.Slice:
		if a.Len() != b.Len() {
			return fmt.Sprintf("%s(len %d vs %d)", path, a.Len(), b.Len())
		}
		if a.IsNil() != b.IsNil() {
			if a.Type().Elem().Kind() == reflect.Uint8 {
				d.used(identNilBytes)
			} else {
				d.used(identNilSlice)
			}
		}
		for i := 0; i < a.Len(); i++ {
			if r := d.diff(a.Index(i), b.Index(i), fmt.Sprintf("%s[%d]", path, i)); r != "" {
				return r
			}
		}
	case reflect.Ptr:
		if a.IsNil() != b.IsNil() {
			return path + "(nil vs non-nil)"
		}
		if !a.IsNil() {
			return d.diff(a.Elem(), b.Elem(), path)
		}
	case reflect.Struct:
		t := a.Type()
		for i := 0; i < t.NumField(); i++ {
			if !t.Field(i).IsExported() {
				continue
			}
			if r := d.diff(a.Field(i), b.Field(i), path+"."+t.Field(i).Name); r != "" {
				return r
			}
		}
	default:
		// nothing else occurs in the covered types; be conservative
		if !reflect.DeepEqual(a.Interface(), b.Interface()) {
			return path + "(" + a.Kind().String() + ")"
		}
	}
	return ""
}

// anyStrictEqual: DeepEqual of two Any struct values with the Value field's
// nil-ness disregarded (that identification is counted separately).
func anyStrictEqual(a, b reflect.Value) bool {
	t := a.Type()
	for i := 0; i < t.NumField(); i++ {
		if t.Field(i).Name == "Value" {
			continue
		}
		fa, fb := a.Field(i), b.Field(i)
		if !t.Field(i).IsExported() {
			// cachedValue (interface) and compat (pointer): equal only if both unset,
			// or (cachedValue) deeply equal; reflect cannot Interface() these, so
			// compare nil-ness, which is what distinguishes packed from unpacked.
			if fa.IsNil() != fb.IsNil() {
				return false
			}
			continue
		}
		if !reflect.DeepEqual(fa.Interface(), fb.Interface()) {
			return false
		}
	}
	return true
}

func bigOrZero(isNil bool, get func() *big.Int) *big.Int {
	if isNil {
		return new(big.Int)
	}
	return get()
}
