package probe19

import (
	"fmt"
	"math/big"
	"reflect"
	"time"

	sdkmath "cosmossdk.io/math"
)

// equalMod reports whether a and b are equal modulo the declared
// identifications:
//   - nil slice == empty slice (also []byte),
//   - nil sdkmath.Int / LegacyDec == 0,
//   - time.Time compared by instant (t.Equal),
//   - codectypes.Any compared by TypeUrl and Value only.
func equalMod(a, b reflect.Value) bool { return diffMod(a, b, "") == "" }

// diffMod returns "" if equal, else the path of the first difference.
func diffMod(a, b reflect.Value, path string) string {
	if a.Type() != b.Type() {
		return path + "(type)"
	}
	switch a.Type() {
	case tInt:
		x, y := a.Interface().(sdkmath.Int), b.Interface().(sdkmath.Int)
		if bigOrZero(x.IsNil(), x.BigInt).Cmp(bigOrZero(y.IsNil(), y.BigInt)) != 0 {
			return path
		}
		return ""
	case tDec:
		x, y := a.Interface().(sdkmath.LegacyDec), b.Interface().(sdkmath.LegacyDec)
		if bigOrZero(x.IsNil(), x.BigInt).Cmp(bigOrZero(y.IsNil(), y.BigInt)) != 0 {
			return path
		}
		return ""
	case tTime:
		if !a.Interface().(time.Time).Equal(b.Interface().(time.Time)) {
			return path
		}
		return ""
	case tAny:
		if a.FieldByName("TypeUrl").String() != b.FieldByName("TypeUrl").String() {
			return path + ".TypeUrl"
		}
		if string(a.FieldByName("Value").Bytes()) != string(b.FieldByName("Value").Bytes()) {
			return path + ".Value"
		}
		return ""
	}
	switch a.Kind() {
	case reflect.Bool:
		if a.Bool() != b.Bool() {
			return path
		}
	case reflect.Int, reflect.Int8, reflect.Int16, reflect.Int32, reflect.Int64:
		if a.Int() != b.Int() {
			return path
		}
	case reflect.Uint, reflect.Uint8, reflect.Uint16, reflect.Uint32, reflect.Uint64:
		if a.Uint() != b.Uint() {
			return path
		}
	case reflect.String:
		if a.String() != b.String() {
			return path
		}
	case reflect.Slice:
		if a.Len() != b.Len() {
			return fmt.Sprintf("%s(len %d vs %d)", path, a.Len(), b.Len())
		}
		for i := 0; i < a.Len(); i++ {
			if d := diffMod(a.Index(i), b.Index(i), fmt.Sprintf("%s[%d]", path, i)); d != "" {
				return d
			}
		}
	case reflect.Ptr:
		if a.IsNil() != b.IsNil() {
			return path + "(nil vs non-nil)"
		}
		if !a.IsNil() {
			return diffMod(a.Elem(), b.Elem(), path)
		}
	case reflect.Struct:
		t := a.Type()
		for i := 0; i < t.NumField(); i++ {
			if !t.Field(i).IsExported() {
				continue
			}
			if d := diffMod(a.Field(i), b.Field(i), path+"."+t.Field(i).Name); d != "" {
				return d
			}
		}
	default:
		// nothing else occurs in the covered types; be conservative
		if !reflect.DeepEqual(a.Interface(), b.Interface()) {
			return path + "(" + a.Kind().String() + ")"
		}
	}
	return ""
}

func bigOrZero(isNil bool, get func() *big.Int) *big.Int {
	if isNil {
		return new(big.Int)
	}
	return get()
}
