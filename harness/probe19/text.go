package probe19

import (
	"encoding/hex"
	"reflect"
	"strconv"
	"strings"
	"time"

	sdkmath "cosmossdk.io/math"
)

// Text renders msg in the value-text format consumed by the Lean model.
// If omit is true, fields whose Go value is the zero value of an omittable kind
// (0, "", empty bytes, nil pointer, empty slice) are left out; otherwise they
// are printed explicitly (u:0, s:, n:, l:()). Int/Dec/time/duration/struct
// fields are always printed.
func Text(msg Msg, omit bool) string {
	var sb strings.Builder
	writeFields(&sb, reflect.ValueOf(msg).Elem(), omit)
	return sb.String()
}

func writeFields(sb *strings.Builder, v reflect.Value, omit bool) {
	first := true
	for _, f := range fieldsOf(v.Type()) {
		fv := v.Field(f.idx)
		if omit && omittable(fv, f) {
			continue
		}
		if !first {
			sb.WriteByte(' ')
		}
		first = false
		sb.WriteByte('(')
		sb.WriteString(strconv.Itoa(f.num))
		sb.WriteByte(' ')
		writeVal(sb, fv, f.k, f.ek, omit)
		sb.WriteByte(')')
	}
}

func omittable(fv reflect.Value, f field) bool {
	switch f.k {
	case kU64:
		return fv.Uint() == 0
	case kI64, kI32, kEnum:
		return fv.Int() == 0
	case kBool:
		return !fv.Bool()
	case kString, kBytes, kList:
		return fv.Len() == 0
	case kPtr, kAny:
		return fv.IsNil()
	}
	return false
}

func writeVal(sb *strings.Builder, fv reflect.Value, k, ek kind, omit bool) {
	switch k {
	case kU64:
		sb.WriteString("u:")
		sb.WriteString(strconv.FormatUint(fv.Uint(), 10))
	case kI64, kI32, kEnum:
		// reflect's Int() sign-extends int32 to int64; uint64() is two's complement
		sb.WriteString("u:")
		sb.WriteString(strconv.FormatUint(uint64(fv.Int()), 10))
	case kBool:
		if fv.Bool() {
			sb.WriteString("u:1")
		} else {
			sb.WriteString("u:0")
		}
	case kString:
		sb.WriteString("s:")
		sb.WriteString(hex.EncodeToString([]byte(fv.String())))
	case kBytes:
		sb.WriteString("s:")
		sb.WriteString(hex.EncodeToString(fv.Bytes()))
	case kInt:
		i := fv.Interface().(sdkmath.Int)
		if i.IsNil() {
			sb.WriteString("i:nil")
		} else {
			sb.WriteString("i:")
			sb.WriteString(i.BigInt().String())
		}
	case kDec:
		d := fv.Interface().(sdkmath.LegacyDec)
		if d.IsNil() {
			sb.WriteString("i:nil")
		} else {
			sb.WriteString("i:")
			sb.WriteString(d.BigInt().String())
		}
	case kTime:
		t := fv.Interface().(time.Time)
		sb.WriteString("t:")
		sb.WriteString(strconv.FormatInt(t.Unix(), 10))
		sb.WriteByte(':')
		sb.WriteString(strconv.Itoa(t.Nanosecond()))
	case kDur:
		sb.WriteString("d:")
		sb.WriteString(strconv.FormatInt(fv.Int(), 10))
	case kMsg:
		sb.WriteString("m:(")
		writeFields(sb, fv, omit)
		sb.WriteByte(')')
	case kPtr, kAny:
		if fv.IsNil() {
			sb.WriteString("n:")
			return
		}
		sb.WriteString("m:(")
		writeFields(sb, fv.Elem(), omit)
		sb.WriteByte(')')
	case kList:
		sb.WriteString("l:(")
		for i := 0; i < fv.Len(); i++ {
			if i > 0 {
				sb.WriteByte(' ')
			}
			writeVal(sb, fv.Index(i), ek, 0, omit)
		}
		sb.WriteByte(')')
	}
}
