package probe19

import (
	"fmt"
	"io"
	"reflect"
	"sort"
	"strings"

	"github.com/cosmos/cosmos-sdk/codec"
	codectypes "github.com/cosmos/cosmos-sdk/codec/types"

	hubtypes "github.com/sentinel-official/hub/v12/types"
	subscriptiontypes "github.com/sentinel-official/hub/v12/x/subscription/types"
)

// NOTE on imports: this package deliberately imports neither
// github.com/cosmos/gogoproto nor google.golang.org/protobuf directly. Both are
// `// indirect` requirements of the harness module, and with GOFLAGS=-mod=mod a
// direct import makes the go command rewrite go.mod. The registry functions we
// would have used (proto.MessageName, proto.MessageType, proto.EnumValueMap,
// proto.GogoResolver.RangeFiles) are replaced by: the generated table
// types_table.go (one entry per proto.RegisterType call in the hub), msgName
// below (the real registry via NewAnyWithValue), enumValues below (the
// generated *_value maps), and a cross-check against the application's
// interface registry.

// Msg is what the real codec's Marshal/Unmarshal accept.
type Msg = codec.ProtoMarshaler

// tableEntry is a row of the generated typeTable.
type tableEntry struct {
	name string // fully-qualified proto name
	core bool
	new  func() Msg
}

// TypeEntry is one covered concrete type.
type TypeEntry struct {
	Name string
	Core bool
	New  func() Msg
}

// msgName returns gogoproto's proto.MessageName(m): NewAnyWithValue sets
// TypeUrl = "/" + proto.MessageName(v).
func msgName(m Msg) string {
	a, err := codectypes.NewAnyWithValue(m)
	if err != nil {
		panic(fmt.Sprintf("probe19: msgName(%T): %v", m, err))
	}
	return strings.TrimPrefix(a.TypeUrl, "/")
}

// enumValues returns the declared values of a proto enum (the map the
// generated code hands to proto.RegisterEnum).
func enumValues(name string) map[string]int32 {
	switch name {
	case "sentinel.types.v1.Status":
		return hubtypes.Status_value
	case "sentinel.subscription.v2.SubscriptionType":
		return subscriptiontypes.SubscriptionType_value
	}
	panic("probe19: unknown enum " + name + " (add it to enumValues)")
}

// Types returns the covered types sorted by name. Problems (name mismatch,
// duplicate, unsupported field shape, a sentinel type known to the interface
// registry but missing from the table) are written to log and counted.
func Types(ir codectypes.InterfaceRegistry, log io.Writer) ([]TypeEntry, int) {
	problems := 0
	byName := map[string]bool{}
	var out []TypeEntry
	for _, e := range typeTable {
		m := e.new()
		if got := msgName(m); got != e.name {
			fmt.Fprintf(log, "probe19: PROBLEM table: %T has proto name %q, table says %q\n", m, got, e.name)
			problems++
		}
		if byName[e.name] {
			fmt.Fprintf(log, "probe19: PROBLEM table: duplicate %s\n", e.name)
			problems++
			continue
		}
		byName[e.name] = true
		out = append(out, TypeEntry{Name: e.name, Core: e.core, New: e.new})
	}
	sort.Slice(out, func(i, j int) bool { return out[i].Name < out[j].Name })

	// cross-check: every sentinel.* implementation the application registered
	// for any interface (sdk.Msg, Subscription, ...) must be in the table
	for _, iface := range ir.ListAllInterfaces() {
		for _, url := range ir.ListImplementations(iface) {
			n := strings.TrimPrefix(url, "/")
			if strings.HasPrefix(n, "sentinel.") && !byName[n] {
				fmt.Fprintf(log, "probe19: PROBLEM %s is registered for interface %s but missing from the type table; NOT covered\n", n, iface)
				problems++
			}
		}
	}

	seen := map[reflect.Type]bool{}
	for _, e := range out {
		func() {
			defer func() {
				if r := recover(); r != nil {
					fmt.Fprintf(log, "probe19: PROBLEM %s: %v\n", e.Name, r)
					problems++
				}
			}()
			checkShape(reflect.TypeOf(e.New()).Elem(), seen)
		}()
	}
	return out, problems
}
