package probe19

import (
	"fmt"
	"io"
	"reflect"
	"sort"
	"strings"

	"github.com/cosmos/cosmos-sdk/codec"
	gogoproto "github.com/cosmos/gogoproto/proto"
	"google.golang.org/protobuf/reflect/protoreflect"

	hubtypes "github.com/sentinel-official/hub/v12/types"
	deposittypes "github.com/sentinel-official/hub/v12/x/deposit/types"
	minttypes "github.com/sentinel-official/hub/v12/x/mint/types"
	nodetypes "github.com/sentinel-official/hub/v12/x/node/types"
	plantypes "github.com/sentinel-official/hub/v12/x/plan/types"
	providertypes "github.com/sentinel-official/hub/v12/x/provider/types"
	sessiontypes "github.com/sentinel-official/hub/v12/x/session/types"
	subscriptiontypes "github.com/sentinel-official/hub/v12/x/subscription/types"
	swaptypes "github.com/sentinel-official/hub/v12/x/swap/types"
	vpntypes "github.com/sentinel-official/hub/v12/x/vpn/types"
)

// Msg is what the real codec's Marshal/Unmarshal accept.
type Msg = codec.ProtoMarshaler

// TypeEntry is one covered concrete type.
type TypeEntry struct {
	Name     string // fully-qualified proto name
	New      func() Msg
	Explicit bool // listed in the explicit table (as opposed to registry-only)
}

type explicitEntry struct {
	name string
	new  func() Msg
}

// explicitTable is the hand-written list of the types property C19 is stated
// for. The registry enumeration below is a superset; the table is kept so that
// a type silently disappearing from the registry is detected.
var explicitTable = []explicitEntry{
	// x/provider
	{"sentinel.provider.v2.MsgRegisterRequest", func() Msg { return new(providertypes.MsgRegisterRequest) }},
	{"sentinel.provider.v2.MsgUpdateRequest", func() Msg { return new(providertypes.MsgUpdateRequest) }},
	{"sentinel.provider.v2.MsgRegisterResponse", func() Msg { return new(providertypes.MsgRegisterResponse) }},
	{"sentinel.provider.v2.MsgUpdateResponse", func() Msg { return new(providertypes.MsgUpdateResponse) }},
	{"sentinel.provider.v2.Provider", func() Msg { return new(providertypes.Provider) }},
	{"sentinel.provider.v2.Params", func() Msg { return new(providertypes.Params) }},
	{"sentinel.provider.v2.GenesisState", func() Msg { return new(providertypes.GenesisState) }},
	// x/node
	{"sentinel.node.v2.MsgRegisterRequest", func() Msg { return new(nodetypes.MsgRegisterRequest) }},
	{"sentinel.node.v2.MsgUpdateDetailsRequest", func() Msg { return new(nodetypes.MsgUpdateDetailsRequest) }},
	{"sentinel.node.v2.MsgUpdateStatusRequest", func() Msg { return new(nodetypes.MsgUpdateStatusRequest) }},
	{"sentinel.node.v2.MsgSubscribeRequest", func() Msg { return new(nodetypes.MsgSubscribeRequest) }},
	{"sentinel.node.v2.MsgRegisterResponse", func() Msg { return new(nodetypes.MsgRegisterResponse) }},
	{"sentinel.node.v2.MsgUpdateDetailsResponse", func() Msg { return new(nodetypes.MsgUpdateDetailsResponse) }},
	{"sentinel.node.v2.MsgUpdateStatusResponse", func() Msg { return new(nodetypes.MsgUpdateStatusResponse) }},
	{"sentinel.node.v2.MsgSubscribeResponse", func() Msg { return new(nodetypes.MsgSubscribeResponse) }},
	{"sentinel.node.v2.Node", func() Msg { return new(nodetypes.Node) }},
	{"sentinel.node.v2.Params", func() Msg { return new(nodetypes.Params) }},
	{"sentinel.node.v2.GenesisState", func() Msg { return new(nodetypes.GenesisState) }},
	// x/plan
	{"sentinel.plan.v2.MsgCreateRequest", func() Msg { return new(plantypes.MsgCreateRequest) }},
	{"sentinel.plan.v2.MsgUpdateStatusRequest", func() Msg { return new(plantypes.MsgUpdateStatusRequest) }},
	{"sentinel.plan.v2.MsgLinkNodeRequest", func() Msg { return new(plantypes.MsgLinkNodeRequest) }},
	{"sentinel.plan.v2.MsgUnlinkNodeRequest", func() Msg { return new(plantypes.MsgUnlinkNodeRequest) }},
	{"sentinel.plan.v2.MsgSubscribeRequest", func() Msg { return new(plantypes.MsgSubscribeRequest) }},
	{"sentinel.plan.v2.MsgCreateResponse", func() Msg { return new(plantypes.MsgCreateResponse) }},
	{"sentinel.plan.v2.MsgUpdateStatusResponse", func() Msg { return new(plantypes.MsgUpdateStatusResponse) }},
	{"sentinel.plan.v2.MsgLinkNodeResponse", func() Msg { return new(plantypes.MsgLinkNodeResponse) }},
	{"sentinel.plan.v2.MsgUnlinkNodeResponse", func() Msg { return new(plantypes.MsgUnlinkNodeResponse) }},
	{"sentinel.plan.v2.MsgSubscribeResponse", func() Msg { return new(plantypes.MsgSubscribeResponse) }},
	{"sentinel.plan.v2.Plan", func() Msg { return new(plantypes.Plan) }},
	{"sentinel.plan.v2.GenesisPlan", func() Msg { return new(plantypes.GenesisPlan) }},
	// x/subscription
	{"sentinel.subscription.v2.MsgCancelRequest", func() Msg { return new(subscriptiontypes.MsgCancelRequest) }},
	{"sentinel.subscription.v2.MsgAllocateRequest", func() Msg { return new(subscriptiontypes.MsgAllocateRequest) }},
	{"sentinel.subscription.v2.MsgCancelResponse", func() Msg { return new(subscriptiontypes.MsgCancelResponse) }},
	{"sentinel.subscription.v2.MsgAllocateResponse", func() Msg { return new(subscriptiontypes.MsgAllocateResponse) }},
	{"sentinel.subscription.v2.BaseSubscription", func() Msg { return new(subscriptiontypes.BaseSubscription) }},
	{"sentinel.subscription.v2.NodeSubscription", func() Msg { return new(subscriptiontypes.NodeSubscription) }},
	{"sentinel.subscription.v2.PlanSubscription", func() Msg { return new(subscriptiontypes.PlanSubscription) }},
	{"sentinel.subscription.v2.Allocation", func() Msg { return new(subscriptiontypes.Allocation) }},
	{"sentinel.subscription.v2.Payout", func() Msg { return new(subscriptiontypes.Payout) }},
	{"sentinel.subscription.v2.Params", func() Msg { return new(subscriptiontypes.Params) }},
	{"sentinel.subscription.v2.GenesisSubscription", func() Msg { return new(subscriptiontypes.GenesisSubscription) }},
	{"sentinel.subscription.v2.GenesisState", func() Msg { return new(subscriptiontypes.GenesisState) }},
	// x/session
	{"sentinel.session.v2.MsgStartRequest", func() Msg { return new(sessiontypes.MsgStartRequest) }},
	{"sentinel.session.v2.MsgUpdateDetailsRequest", func() Msg { return new(sessiontypes.MsgUpdateDetailsRequest) }},
	{"sentinel.session.v2.MsgEndRequest", func() Msg { return new(sessiontypes.MsgEndRequest) }},
	{"sentinel.session.v2.MsgStartResponse", func() Msg { return new(sessiontypes.MsgStartResponse) }},
	{"sentinel.session.v2.MsgUpdateDetailsResponse", func() Msg { return new(sessiontypes.MsgUpdateDetailsResponse) }},
	{"sentinel.session.v2.MsgEndResponse", func() Msg { return new(sessiontypes.MsgEndResponse) }},
	{"sentinel.session.v2.Session", func() Msg { return new(sessiontypes.Session) }},
	{"sentinel.session.v2.Proof", func() Msg { return new(sessiontypes.Proof) }},
	{"sentinel.session.v2.Params", func() Msg { return new(sessiontypes.Params) }},
	{"sentinel.session.v2.GenesisState", func() Msg { return new(sessiontypes.GenesisState) }},
	// x/swap
	{"sentinel.swap.v1.MsgSwapRequest", func() Msg { return new(swaptypes.MsgSwapRequest) }},
	{"sentinel.swap.v1.MsgSwapResponse", func() Msg { return new(swaptypes.MsgSwapResponse) }},
	{"sentinel.swap.v1.Swap", func() Msg { return new(swaptypes.Swap) }},
	{"sentinel.swap.v1.Params", func() Msg { return new(swaptypes.Params) }},
	{"sentinel.swap.v1.GenesisState", func() Msg { return new(swaptypes.GenesisState) }},
	// x/deposit, x/mint, x/vpn, types
	{"sentinel.deposit.v1.Deposit", func() Msg { return new(deposittypes.Deposit) }},
	{"sentinel.mint.v1.Inflation", func() Msg { return new(minttypes.Inflation) }},
	{"sentinel.mint.v1.GenesisState", func() Msg { return new(minttypes.GenesisState) }},
	{"sentinel.vpn.v1.GenesisState", func() Msg { return new(vpntypes.GenesisState) }},
	{"sentinel.types.v1.Bandwidth", func() Msg { return new(hubtypes.Bandwidth) }},
}

// registryNames lists every message (nested ones included) with prefix
// "sentinel." in a file registered with gogoproto.
func registryNames() []string {
	var names []string
	var walk func(ms protoreflect.MessageDescriptors)
	walk = func(ms protoreflect.MessageDescriptors) {
		for i := 0; i < ms.Len(); i++ {
			md := ms.Get(i)
			if md.IsMapEntry() {
				continue
			}
			if n := string(md.FullName()); strings.HasPrefix(n, "sentinel.") {
				names = append(names, n)
			}
			walk(md.Messages())
		}
	}
	gogoproto.GogoResolver.RangeFiles(func(fd protoreflect.FileDescriptor) bool {
		walk(fd.Messages())
		return true
	})
	sort.Strings(names)
	return names
}

// Types returns the covered types sorted by name: the union of the explicit
// table and the gogoproto registry. Problems (name mismatch, registered name
// without a usable Go type, explicit type missing from the registry, unsupported
// field shape) are written to log and returned as an error count.
func Types(log io.Writer) ([]TypeEntry, int) {
	problems := 0
	byName := map[string]*TypeEntry{}

	for _, e := range explicitTable {
		m := e.new()
		if got := gogoproto.MessageName(m); got != e.name {
			fmt.Fprintf(log, "probe19: PROBLEM explicit table: %T has proto name %q, table says %q\n", m, got, e.name)
			problems++
		}
		if _, dup := byName[e.name]; dup {
			fmt.Fprintf(log, "probe19: PROBLEM explicit table: duplicate %s\n", e.name)
			problems++
			continue
		}
		byName[e.name] = &TypeEntry{Name: e.name, New: e.new, Explicit: true}
	}

	inRegistry := map[string]bool{}
	for _, n := range registryNames() {
		inRegistry[n] = true
		rt := gogoproto.MessageType(n)
		if rt == nil || rt.Kind() != reflect.Ptr || rt.Elem().Kind() != reflect.Struct {
			fmt.Fprintf(log, "probe19: PROBLEM registry: %s has descriptor but no registered Go type; NOT covered\n", n)
			problems++
			continue
		}
		if _, ok := reflect.New(rt.Elem()).Interface().(Msg); !ok {
			fmt.Fprintf(log, "probe19: PROBLEM registry: %s (%s) is not a codec.ProtoMarshaler; NOT covered\n", n, rt)
			problems++
			continue
		}
		if e, ok := byName[n]; ok {
			if got := reflect.TypeOf(e.New()); got != rt {
				fmt.Fprintf(log, "probe19: PROBLEM %s: explicit Go type %s != registered %s\n", n, got, rt)
				problems++
			}
			continue
		}
		elem := rt.Elem()
		byName[n] = &TypeEntry{Name: n, New: func() Msg { return reflect.New(elem).Interface().(Msg) }}
	}
	for _, e := range explicitTable {
		if !inRegistry[e.name] {
			fmt.Fprintf(log, "probe19: PROBLEM explicit type %s not found in the gogoproto file registry\n", e.name)
			problems++
		}
	}

	out := make([]TypeEntry, 0, len(byName))
	for _, e := range byName {
		out = append(out, *e)
	}
	sort.Slice(out, func(i, j int) bool { return out[i].Name < out[j].Name })

	seen := map[reflect.Type]bool{}
	for _, e := range out {
		func() {
			defer func() {
				if r := recover(); r != nil {
					fmt.Fprintf(log, "probe19: PROBLEM %s: %v\n", e.Name, r)
					problems++
				}
			}()
			checkShape(reflect.TypeOf(e.New()).Elem(), seen)
		}()
	}
	return out, problems
}
