package probe19

import (
	"bytes"
	"io"
	"reflect"
	"regexp"
	"strings"
	"testing"
	"time"

	hubapp "github.com/sentinel-official/hub/v12/app"
	minttypes "github.com/sentinel-official/hub/v12/x/mint/types"
)

var lineRE = regexp.MustCompile(`^pb (sentinel\.[A-Za-z0-9_.]+) (.*) => (-|[0-9a-f]+|err:\S+) rt=(1|0|err:\S+) strict=([01]) json_rt=(1|0|err:\S+) json=(-|err:\S+|\{\S*\})$`)

// Every emitted line has the documented shape, its value text parses with the
// strict grammar, and (checked inside Run) re-encodes to the real wire bytes.
func TestLinesWellFormed(t *testing.T) {
	var out bytes.Buffer
	if err := Run(Config{Seed: 7, N: 4000, Out: &out, Log: io.Discard}); err != nil {
		t.Fatal(err)
	}
	lines := strings.Split(strings.TrimSuffix(out.String(), "\n"), "\n")
	// the header: what the interface registry resolves
	if !strings.HasPrefix(lines[0], "anytypes sentinel.") || !strings.Contains(lines[0], " sentinel.subscription.v2.NodeSubscription ") {
		t.Fatalf("header malformed: %.300s", lines[0])
	}
	lines = lines[1:]
	if len(lines) != 4000 {
		t.Fatalf("got %d lines", len(lines))
	}
	for i, l := range lines {
		m := lineRE.FindStringSubmatch(l)
		if m == nil {
			t.Fatalf("line %d malformed: %.300s", i+1, l)
		}
		txt := m[2]
		if strings.Contains(txt, "  ") || strings.HasPrefix(txt, " ") || strings.HasSuffix(txt, " ") {
			t.Fatalf("line %d: stray whitespace in text: %.300s", i+1, l)
		}
		depth := 0
		for _, c := range txt {
			switch c {
			case '(':
				depth++
			case ')':
				depth--
			}
			if depth < 0 {
				t.Fatalf("line %d: unbalanced parens", i+1)
			}
		}
		if depth != 0 {
			t.Fatalf("line %d: unbalanced parens", i+1)
		}
		if _, err := ParseText(txt); err != nil {
			t.Fatalf("line %d: %v: %.300s", i+1, err, l)
		}
	}
}

func TestParserRejects(t *testing.T) {
	for _, bad := range []string{
		"(1 u:01)", "(1 u:-1)", "(2 u:1) (1 u:1)", "(1 u:1)  (2 u:1)", "(1 s:ABC)", "(1 s:abc)",
		"(1 i:-0)", "(1 t:5)", "(1 t:5:1000000000)", "(1 l:(u:1))", "(1 l:(s: m:()))", "(1 m:(1 u:1))",
		"(1 u:1) ", " (1 u:1)", "(1 x:1)", "(1 u:18446744073709551616)",
	} {
		if _, err := ParseText(bad); err == nil {
			t.Errorf("accepted %q", bad)
		}
	}
	for _, good := range []string{"", "(1 u:0)", "(1 s:)", "(1 n:)", "(1 l:())", "(1 m:())", "(1 i:nil) (3 i:-5)", "(1 t:-62135596800:0) (2 d:-1)", "(1 l:(s: s:00))", "(1 l:(m:() m:((1 u:1))))"} {
		if _, err := ParseText(good); err != nil {
			t.Errorf("rejected %q: %v", good, err)
		}
	}
}

// The canonical JSON text shared with the Lean model (`Json.render`).
func TestCanonicalJSON(t *testing.T) {
	got, err := CanonicalJSON([]byte(`{"b": [1, -2, "x y", "é"], "a": {"@type": "/t.T", "n": null, "ok": true}, "id": "18446744073709551615", "e": ""}`))
	if err != nil {
		t.Fatal(err)
	}
	want := `{"a":{"@type":"/t.T","n":null,"ok":true},"b":[1,-2,x782079,xc3a9],"e":"","id":"18446744073709551615"}`
	if got != want {
		t.Fatalf("got  %s\nwant %s", got, want)
	}
}

// Same seed, same output.
func TestDeterministic(t *testing.T) {
	var a, b bytes.Buffer
	if err := Run(Config{Seed: 3, N: 600, Out: &a, Log: io.Discard}); err != nil {
		t.Fatal(err)
	}
	if err := Run(Config{Seed: 3, N: 600, Out: &b, Log: io.Discard}); err != nil {
		t.Fatal(err)
	}
	if !bytes.Equal(a.Bytes(), b.Bytes()) {
		t.Fatal("output differs between two runs with the same seed")
	}
}

// Which time representations survive strictly (documentation of codec behaviour).
func TestTimeRepresentations(t *testing.T) {
	cdc := hubapp.DefaultEncodingConfig().Codec
	for _, c := range []struct {
		name   string
		tm     time.Time
		strict bool
	}{
		{"zero", time.Time{}, true},
		{"unix0-utc", time.Unix(0, 0).UTC(), true},
		{"9999", time.Date(9999, 12, 31, 23, 59, 59, 999999999, time.UTC), true},
		{"fixed-zone", time.Unix(1700000000, 5).In(time.FixedZone("X", 3600)), false},
		{"local", time.Unix(1700000000, 5), false},
	} {
		v := &minttypes.Inflation{Timestamp: c.tm}
		e := TypeEntry{Name: "sentinel.mint.v1.Inflation", New: func() Msg { return new(minttypes.Inflation) }}
		r := ProbeOne(cdc, e, v, true)
		// the three Dec fields are nil here, which already breaks strictness; compare the time alone
		fresh := new(minttypes.Inflation)
		bz, err := cdc.Marshal(&minttypes.Inflation{Timestamp: c.tm})
		if err != nil {
			t.Fatal(err)
		}
		if err := cdc.Unmarshal(bz, fresh); err != nil {
			t.Fatal(err)
		}
		strict := reflect.DeepEqual(c.tm, fresh.Timestamp)
		t.Logf("%-10s rt=%s json_rt=%s time-strict=%v  %s", c.name, r.RT, r.JSONRT, strict, r.Text)
		if r.RT != "1" || r.JSONRT != "1" {
			t.Errorf("%s: rt=%s json_rt=%s", c.name, r.RT, r.JSONRT)
		}
		if strict != c.strict && c.name != "local" { // "local" depends on TZ of the machine
			t.Errorf("%s: strict=%v, expected %v", c.name, strict, c.strict)
		}
	}
}
