package probe19

import (
	"bufio"
	"encoding/hex"
	"fmt"
	"io"
	"sort"
	"strings"

	hubapp "github.com/sentinel-official/hub/v12/app"
)

// Decode probe: the model's `decode` must mirror the generated Unmarshal on ARBITRARY bytes, not only
// on the output of Marshal. For every generated value the real bytes are mutated and handed to the real
// codec; one line per case:
//
//	pbd <fully.qualified.Name> <hex of the input bytes, "-" if empty> => <value text of the decoded struct> | err:<reason>
//
// The Lean side decodes the same bytes with the model and compares the resulting value with the text.

// mutation kinds
const (
	mutNone = iota
	mutConcat
	mutUnknownVarint
	mutUnknownLen
	mutUnknownFixed
	mutUnknownGroup
	mutFlip
	mutTruncate
	mutInsert
	mutWrongWire
	mutLongVarint
	mutEndGroup
	mutIntText
	mutCount
)

var mutNames = [...]string{"none", "concat", "unknown-varint", "unknown-len", "unknown-fixed", "unknown-group",
	"flip", "truncate", "insert", "wrong-wiretype", "long-varint", "end-group", "int-text"}

func (g *Gen) mutate(kind int, bz, other []byte) []byte {
	out := append([]byte{}, bz...)
	pos := func() int {
		if len(out) == 0 {
			return 0
		}
		return g.r.Intn(len(out) + 1)
	}
	unknownNum := func() uint64 { return []uint64{15, 16, 100, 2047, 2048, 536870911}[g.r.Intn(6)] }
	// entry boundaries are unknown here; appending / prepending keeps the rest well-formed
	place := func(extra []byte) []byte {
		if g.r.Intn(2) == 0 {
			return append(out, extra...)
		}
		return append(append([]byte{}, extra...), out...)
	}
	switch kind {
	case mutConcat:
		return append(out, other...)
	case mutUnknownVarint:
		return place(appendVarint(appendVarint(nil, unknownNum()<<3|0), g.u64()))
	case mutUnknownLen:
		p := g.randBytes(g.r.Intn(20))
		return place(append(appendVarint(appendVarint(nil, unknownNum()<<3|2), uint64(len(p))), p...))
	case mutUnknownFixed:
		if g.r.Intn(2) == 0 {
			return place(append(appendVarint(nil, unknownNum()<<3|1), g.randBytes(8)...))
		}
		return place(append(appendVarint(nil, unknownNum()<<3|5), g.randBytes(4)...))
	case mutUnknownGroup:
		n := unknownNum()
		inner := appendVarint(appendVarint(nil, 1<<3|0), g.u64())
		if g.r.Intn(2) == 0 { // nested group
			inner = append(inner, appendVarint(nil, 2<<3|3)...)
			inner = append(inner, append(appendVarint(appendVarint(nil, 3<<3|2), 3), 'a', 'b', 'c')...)
			inner = append(inner, appendVarint(nil, 2<<3|4)...)
		}
		grp := append(appendVarint(nil, n<<3|3), inner...)
		if g.r.Intn(5) != 0 { // sometimes leave the group open
			grp = append(grp, appendVarint(nil, n<<3|4)...)
		}
		return place(grp)
	case mutFlip:
		if len(out) == 0 {
			return []byte{byte(g.r.Intn(256))}
		}
		i := g.r.Intn(len(out))
		if g.r.Intn(2) == 0 {
			out[i] ^= 1 << uint(g.r.Intn(8))
		} else {
			out[i] = byte(g.r.Intn(256))
		}
		return out
	case mutTruncate:
		if len(out) == 0 {
			return out
		}
		return out[:g.r.Intn(len(out))]
	case mutInsert:
		i := pos()
		ins := g.randBytes(1 + g.r.Intn(3))
		return append(append(append([]byte{}, out[:i]...), ins...), out[i:]...)
	case mutWrongWire:
		// a low field number (probably known) with a random wire type and a plausible payload
		num := uint64(1 + g.r.Intn(8))
		switch wt := uint64(g.r.Intn(8)); wt {
		case 0:
			return place(appendVarint(appendVarint(nil, num<<3|0), g.u64()))
		case 2:
			p := g.randBytes(g.r.Intn(6))
			return place(append(appendVarint(appendVarint(nil, num<<3|2), uint64(len(p))), p...))
		case 1:
			return place(append(appendVarint(nil, num<<3|1), g.randBytes(8)...))
		case 5:
			return place(append(appendVarint(nil, num<<3|5), g.randBytes(4)...))
		default:
			return place(appendVarint(nil, num<<3|wt))
		}
	case mutLongVarint:
		// an over-long (but ≤ 10 bytes, or 11 bytes = overflow) encoding of a small number, as an unknown
		// or as field 1
		num := []uint64{1, 15}[g.r.Intn(2)]
		n := 2 + g.r.Intn(10)
		v := make([]byte, n)
		for i := 0; i < n-1; i++ {
			v[i] = 0x80 | byte(g.r.Intn(128))
		}
		v[n-1] = byte(g.r.Intn(128))
		return place(append(appendVarint(nil, num<<3|0), v...))
	case mutEndGroup:
		return place(appendVarint(nil, uint64(1+g.r.Intn(20))<<3|4))
	case mutIntText:
		// length-preserving rewrites inside a run of decimal digits (the text of an sdkmath.Int /
		// LegacyDec): Go reads it with big.Int base 0 — signs, 0x/0b/0o prefixes, octal, separators
		var runs [][2]int
		for i := 0; i < len(out); {
			j := i
			for j < len(out) && out[j] >= '0' && out[j] <= '9' {
				j++
			}
			if j-i >= 3 {
				runs = append(runs, [2]int{i, j})
			}
			if j == i {
				j++
			}
			i = j
		}
		if len(runs) == 0 {
			return out
		}
		r := runs[g.r.Intn(len(runs))]
		a, b := r[0], r[1]
		switch g.r.Intn(12) {
		case 0:
			copy(out[a:], "0x")
		case 1:
			copy(out[a:], "0X")
		case 2:
			copy(out[a:], "0b")
			for k := a + 2; k < b; k++ {
				out[k] = '0' + out[k]%2
			}
		case 3:
			copy(out[a:], "0o")
		case 4:
			out[a] = '+'
		case 5:
			out[a] = '0'
		case 6:
			out[a+1+g.r.Intn(b-a-2)] = '_'
		case 7:
			out[a] = '_'
		case 8:
			out[b-1] = '_'
		case 9:
			k := a + g.r.Intn(b-a-1)
			out[k], out[k+1] = '_', '_'
		case 10:
			copy(out[a:], "0_")
		case 11:
			out[a+g.r.Intn(b-a)] = []byte{'a', 'F', 'e', ' ', '.', 'x'}[g.r.Intn(6)]
		}
		return out
	}
	return out
}

// RunDecode executes the decode probe.
func RunDecode(cfg Config) error {
	enc := hubapp.DefaultEncodingConfig()
	cdc := enc.Codec
	log := cfg.Log
	if log == nil {
		log = io.Discard
	}
	all, _ := Types(enc.InterfaceRegistry, log)
	SetAnyPackable(AnyTypes(enc.InterfaceRegistry))
	var types []TypeEntry
	for _, e := range all {
		if (cfg.Filter == "" || strings.Contains(e.Name, cfg.Filter)) && (!cfg.Core || e.Core) {
			types = append(types, e)
		}
	}
	if len(types) == 0 {
		return fmt.Errorf("no type matches filter %q", cfg.Filter)
	}
	gens := make([]*Gen, len(types))
	for i, e := range types {
		gens[i] = NewGen(typeSeed(cfg.Seed+7777, e.Name))
	}
	out := bufio.NewWriterSize(cfg.Out, 1<<20)
	defer out.Flush()

	okBy, errBy := map[string]int{}, map[string]int{}
	// a fixed table first: the text forms of a big integer (Go reads them with big.Int base 0), as the
	// amount of a deposit-module Coin-bearing message
	for _, e := range types {
		if e.Name != "sentinel.swap.v1.Swap" {
			continue
		}
		for _, c := range []string{"0", "-0", "+0", "7", "+7", "-7", "007", "017", "09", "0_7", "0_", "_7", "7_", "1__0", "1_000", "0x1f", "0X1F", "0x",
			"0x_1f", "0x1f_", "0b101", "0b102", "0o17", "0O17", "0o8", "1e3", " 1", "1 ", "-", "+", "--1", "+-1", "0xg", "00", "0_0", "1_0_0", "0b_1", "0B1_1",
			"1a", "a", "0x_", "-0x10", "+0b11", "0xffffffffffffffffffffffffffffffffffffffffffffffffffffffffffffffff", "0x10000000000000000000000000000000000000000000000000000000000000000"} {
			// Swap{tx_hash=1 bytes, receiver=2 string, amount=3 Coin{denom=1, amount=2}}
			coin := append([]byte{0x0a, 0x01, 'a', 0x12, byte(len(c))}, c...)
			in := append([]byte{0x1a, byte(len(coin))}, coin...)
			fresh := e.New()
			err, pan := guard(func() error { return cdc.Unmarshal(in, fresh) })
			res := ""
			switch {
			case pan:
				res = "err:panic:" + clean(err.Error(), 100)
			case err != nil:
				res = "err:" + clean(err.Error(), 100)
			default:
				res = Text(fresh, false)
			}
			if _, werr := fmt.Fprintf(out, "pbd %s %s => %s\n", e.Name, hex.EncodeToString(in), res); werr != nil {
				return werr
			}
		}
	}
	for k := 0; k < cfg.N; k++ {
		ti := k % len(types)
		e, g := types[ti], gens[ti]
		gen := func() []byte {
			v := e.New()
			if g.r.Intn(8) != 0 {
				g.Fill(v, modeRandom)
			}
			var bz []byte
			err, _ := guard(func() (err error) { bz, err = cdc.Marshal(v); return })
			if err != nil {
				return nil
			}
			return bz
		}
		bz, other := gen(), gen()
		kind := (k / len(types)) % mutCount
		in := g.mutate(kind, bz, other)

		fresh := e.New()
		err, pan := guard(func() error { return cdc.Unmarshal(in, fresh) })
		res := ""
		switch {
		case pan:
			res = "err:panic:" + clean(err.Error(), 100)
		case err != nil:
			res = "err:" + clean(err.Error(), 100)
		default:
			res = Text(fresh, false)
		}
		h := "-"
		if len(in) > 0 {
			h = hex.EncodeToString(in)
		}
		if strings.HasPrefix(res, "err:") {
			errBy[mutNames[kind]]++
		} else {
			okBy[mutNames[kind]]++
		}
		if _, werr := fmt.Fprintf(out, "pbd %s %s => %s\n", e.Name, h, res); werr != nil {
			return werr
		}
	}
	if cfg.Log != nil {
		names := append([]string{}, mutNames[:]...)
		sort.Strings(names)
		fmt.Fprintf(cfg.Log, "probe19: decode probe seed=%d n=%d over %d types; per mutation: accepted / rejected by the real Unmarshal\n", cfg.Seed, cfg.N, len(types))
		for _, n := range names {
			fmt.Fprintf(cfg.Log, "probe19: mut %-16s %6d %6d\n", n, okBy[n], errBy[n])
		}
	}
	return nil
}
