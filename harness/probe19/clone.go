package probe19

import "reflect"

// cloneMsg returns a deep copy of m (same Go representation: nil-ness of
// slices, Ints, Any caches and time locations are preserved). It is needed
// because the real codec's Marshal is not side-effect free: sdkmath.Int's
// MarshalTo has a pointer receiver and replaces a nil Int by 0 in place.
func cloneMsg(m Msg) Msg {
	src := reflect.ValueOf(m)
	dst := reflect.New(src.Type().Elem())
	cloneInto(dst.Elem(), src.Elem())
	return dst.Interface().(Msg)
}

func cloneInto(dst, src reflect.Value) {
	switch src.Kind() {
	case reflect.Struct:
		dst.Set(src) // shallow, includes unexported fields (Any.cachedValue, big.Int pointers)
		switch src.Type() {
		case tInt, tDec, tTime:
			return // immutable as far as the codec is concerned
		}
		t := src.Type()
		for i := 0; i < t.NumField(); i++ {
			if !t.Field(i).IsExported() {
				continue
			}
			switch t.Field(i).Type.Kind() {
			case reflect.Struct, reflect.Slice, reflect.Ptr:
				cloneInto(dst.Field(i), src.Field(i))
			}
		}
	case reflect.Slice:
		if src.IsNil() {
			dst.Set(reflect.Zero(src.Type()))
			return
		}
		s := reflect.MakeSlice(src.Type(), src.Len(), src.Len())
		for i := 0; i < src.Len(); i++ {
			cloneInto(s.Index(i), src.Index(i))
		}
		dst.Set(s)
	case reflect.Ptr:
		if src.IsNil() {
			dst.Set(reflect.Zero(src.Type()))
			return
		}
		p := reflect.New(src.Type().Elem())
		cloneInto(p.Elem(), src.Elem())
		dst.Set(p)
	default:
		dst.Set(src)
	}
}
