package probe19

import (
	"bytes"
	"encoding/hex"
	"encoding/json"
	"fmt"
	"sort"
	"strings"

	codectypes "github.com/cosmos/cosmos-sdk/codec/types"
)

// AnyTypes returns, sorted, the fully-qualified names of the sentinel.* messages
// the interface registry resolves (type URL = "/" + name): the implementations
// registered for any interface.
func AnyTypes(ir codectypes.InterfaceRegistry) []string {
	seen := map[string]bool{}
	var out []string
	for _, iface := range ir.ListAllInterfaces() {
		for _, url := range ir.ListImplementations(iface) {
			n := strings.TrimPrefix(url, "/")
			if strings.HasPrefix(n, "sentinel.") && !seen[n] {
				seen[n] = true
				out = append(out, n)
			}
		}
	}
	sort.Strings(out)
	return out
}

// CanonicalJSON re-serialises a JSON document in the canonical form shared with
// the Lean model (`Json.render`): members sorted by name, no white space,
// numbers as written, a string as "text" if it consists of [0-9A-Za-z_.:/+=@-]
// only and as x<hex of its UTF-8 bytes> otherwise (so no escaping rules are
// involved).
func CanonicalJSON(doc []byte) (string, error) {
	dec := json.NewDecoder(bytes.NewReader(doc))
	dec.UseNumber()
	var v interface{}
	if err := dec.Decode(&v); err != nil {
		return "", err
	}
	if dec.More() {
		return "", fmt.Errorf("trailing data")
	}
	var sb strings.Builder
	if err := canonWrite(&sb, v); err != nil {
		return "", err
	}
	return sb.String(), nil
}

func canonStr(s string) string {
	safe := true
	for i := 0; i < len(s); i++ {
		c := s[i]
		switch {
		case c >= '0' && c <= '9', c >= 'a' && c <= 'z', c >= 'A' && c <= 'Z':
		case c == '-', c == '_', c == '.', c == ':', c == '/', c == '+', c == '=', c == '@':
		default:
			safe = false
		}
	}
	if safe {
		return `"` + s + `"`
	}
	return "x" + hex.EncodeToString([]byte(s))
}

func canonWrite(sb *strings.Builder, v interface{}) error {
	switch x := v.(type) {
	case nil:
		sb.WriteString("null")
	case bool:
		if x {
			sb.WriteString("true")
		} else {
			sb.WriteString("false")
		}
	case json.Number:
		sb.WriteString(x.String())
	case string:
		sb.WriteString(canonStr(x))
	case []interface{}:
		sb.WriteByte('[')
		for i, e := range x {
			if i > 0 {
				sb.WriteByte(',')
			}
			if err := canonWrite(sb, e); err != nil {
				return err
			}
		}
		sb.WriteByte(']')
	case map[string]interface{}:
		type kv struct{ k, ck string }
		keys := make([]kv, 0, len(x))
		for k := range x {
			keys = append(keys, kv{k, canonStr(k)})
		}
		sort.Slice(keys, func(i, j int) bool { return keys[i].ck < keys[j].ck })
		sb.WriteByte('{')
		for i, k := range keys {
			if i > 0 {
				sb.WriteByte(',')
			}
			sb.WriteString(k.ck)
			sb.WriteByte(':')
			if err := canonWrite(sb, x[k.k]); err != nil {
				return err
			}
		}
		sb.WriteByte('}')
	default:
		return fmt.Errorf("unexpected JSON value %T", v)
	}
	return nil
}
