package probe19

import (
	"bufio"
	"encoding/hex"
	"fmt"
	"hash/fnv"
	"io"
	"reflect"
	"regexp"
	"sort"
	"strings"

	"github.com/cosmos/cosmos-sdk/codec"

	hubapp "github.com/sentinel-official/hub/v12/app"
)

// Config of one probe run.
type Config struct {
	Seed   int64
	N      int
	Filter string    // substring of the proto name; "" = all
	Core   bool      // only the core types (current msgs, records, params, genesis)
	Out    io.Writer // the `pb ...` lines
	Log    io.Writer // covered types, problems, summary
}

// Result of probing one value.
type Result struct {
	Name    string
	Text    string
	Wire    string // hex, "-" or "err:..."
	RT      string // "1", "0", "err:..."
	Strict  bool
	JSONRT  string
	JSONTree string        // canonical text of MarshalJSON(binary normal form of v), "-" or "err:..."
	RTDiff  string         // path of the first difference when RT == "0"
	JSONDif string         // same for JSONRT == "0"
	SelfErr string         // non-empty if the text self-check failed
	Mutated bool           // cdc.Marshal(v) changed v itself
	Idents  map[string]int // identifications needed by the binary round trip (RT == "1")
}

func (r Result) Line() string {
	strict := "0"
	if r.Strict {
		strict = "1"
	}
	tree := r.JSONTree
	if tree == "" {
		tree = "-"
	}
	return fmt.Sprintf("pb %s %s => %s rt=%s strict=%s json_rt=%s json=%s", r.Name, r.Text, r.Wire, r.RT, strict, r.JSONRT, tree)
}

func clean(s string, max int) string {
	s = strings.Map(func(r rune) rune {
		switch r {
		case ' ', '\n', '\r', '\t':
			return '_'
		}
		return r
	}, s)
	if len(s) > max {
		s = s[:max]
	}
	return s
}

// guard runs f, converting a panic into an error prefixed "panic:".
func guard(f func() error) (err error, panicked bool) {
	defer func() {
		if r := recover(); r != nil {
			err = fmt.Errorf("%v", r)
			panicked = true
		}
	}()
	return f(), false
}

// ProbeOne marshals v with the real codec and computes the verdicts.
func ProbeOne(cdc codec.Codec, e TypeEntry, v Msg, omit bool) Result {
	res := Result{Name: e.Name, Text: Text(v, omit), JSONTree: "-"}
	// Marshal may mutate its argument (nil Int -> 0), so every comparison is
	// made against a pristine copy, and JSON gets its own copy.
	orig, vj := cloneMsg(v), cloneMsg(v)
	if !reflect.DeepEqual(orig, v) {
		res.SelfErr = "clone: deep copy differs from the original"
	}

	// --- text self-check (format only; bytes compared below) ---
	parsed, perr := ParseText(res.Text)
	if perr != nil {
		res.SelfErr = "parse: " + perr.Error()
	}

	// --- binary ---
	var bz []byte
	var normal Msg // the value as read back from its bytes (binary normal form), if that worked
	err, pan := guard(func() (err error) { bz, err = cdc.Marshal(v); return })
	switch {
	case pan:
		res.Wire = "err:panic:" + clean(err.Error(), 80)
		res.RT = "err:marshal"
	case err != nil:
		res.Wire = "err:" + clean(err.Error(), 80)
		res.RT = "err:marshal"
	default:
		if len(bz) == 0 {
			res.Wire = "-"
		} else {
			res.Wire = hex.EncodeToString(bz)
		}
		if perr == nil {
			if self := EncodeFields(parsed); string(self) != string(bz) {
				res.SelfErr = "reencode: text re-encodes to " + hex.EncodeToString(self)
			}
		}
		fresh := e.New()
		err, pan = guard(func() error { return cdc.Unmarshal(bz, fresh) })
		switch {
		case pan:
			res.RT = "err:panic:" + clean(err.Error(), 120)
		case err != nil:
			res.RT = "err:" + clean(err.Error(), 120)
		default:
			normal = fresh
			var df differ
			res.Mutated = !reflect.DeepEqual(orig, v)
			if d := df.diff(reflect.ValueOf(orig), reflect.ValueOf(fresh), ""); d != "" {
				res.RT = "0"
				res.RTDiff = d
			} else {
				res.RT = "1"
				res.Strict = reflect.DeepEqual(orig, fresh)
				res.Idents = df.idents
				if res.Strict != (len(df.idents) == 0) {
					// DeepEqual and the identification bookkeeping disagree
					res.Idents = map[string]int{"UNEXPLAINED(strict/ident mismatch)": 1}
				}
			}
		}
	}

	// --- JSON ---
	var js []byte
	err, pan = guard(func() (err error) { js, err = cdc.MarshalJSON(vj); return })
	switch {
	case pan:
		res.JSONRT = clean("err:panic:marshal:"+err.Error(), 120)
	case err != nil:
		res.JSONRT = clean("err:marshal:"+err.Error(), 120)
	default:
		fresh2 := e.New()
		err, pan = guard(func() error { return cdc.UnmarshalJSON(js, fresh2) })
		switch {
		case pan:
			res.JSONRT = clean("err:panic:unmarshal:"+err.Error(), 120)
		case err != nil:
			res.JSONRT = clean("err:unmarshal:"+err.Error(), 120)
		default:
			if d := new(differ).diff(reflect.ValueOf(orig), reflect.ValueOf(fresh2), ""); d != "" {
				res.JSONRT = "0"
				res.JSONDif = d
			} else {
				res.JSONRT = "1"
			}
		}
	}

	// --- JSON tree of the binary normal form (nil Dec -> 0, empty bytes -> nil ...): the value the model's
	// `Val` denotes; compared member by member with the model's tree ---
	if normal != nil && res.RT == "1" {
		var jn []byte
		err, pan = guard(func() (err error) { jn, err = cdc.MarshalJSON(normal); return })
		switch {
		case pan:
			res.JSONTree = clean("err:panic:"+err.Error(), 80)
		case err != nil:
			res.JSONTree = clean("err:"+err.Error(), 80)
		default:
			if t, err := CanonicalJSON(jn); err != nil {
				res.JSONTree = clean("err:canonical:"+err.Error(), 80)
			} else {
				res.JSONTree = t
			}
		}
	}
	return res
}

type typeStats struct {
	n, marshalErr, rtBad, strict0, jsonBad, selfBad int
	maxLine                                         int
}

type class struct {
	count   int
	example string
}

var (
	reDigits = regexp.MustCompile(`[0-9]+`)
	reQuoted = regexp.MustCompile(`"[^"]*"`)
)

// normalize turns a reason into a class key: numbers -> #.
func normalize(s string) string {
	s = reQuoted.ReplaceAllStringFunc(s, func(q string) string {
		if len(q) > 24 {
			return `"…"`
		}
		return q
	})
	return reDigits.ReplaceAllString(s, "#")
}

func trimLine(s string, max int) string {
	if len(s) <= max {
		return s
	}
	return s[:max] + "…"
}

func typeSeed(seed int64, name string) int64 {
	h := fnv.New64a()
	h.Write([]byte(name))
	return seed*1000003 + int64(h.Sum64()>>1)
}

// Run executes the probe.
func Run(cfg Config) error {
	enc := hubapp.DefaultEncodingConfig()
	cdc := enc.Codec

	all, problems := Types(enc.InterfaceRegistry, cfg.Log)
	SetAnyPackable(AnyTypes(enc.InterfaceRegistry))
	var types []TypeEntry
	for _, e := range all {
		if (cfg.Filter == "" || strings.Contains(e.Name, cfg.Filter)) && (!cfg.Core || e.Core) {
			types = append(types, e)
		}
	}
	nCore := 0
	for _, e := range types {
		if e.Core {
			nCore++
		}
	}
	fmt.Fprintf(cfg.Log, "probe19: seed=%d n=%d filter=%q; covering %d types (%d core '*', %d other: old versions, queries, events; %d registered sentinel.* types in total); %d enumeration problems\n",
		cfg.Seed, cfg.N, cfg.Filter, len(types), nCore, len(types)-nCore, len(all), problems)
	for _, e := range types {
		mark := " "
		if e.Core {
			mark = "*"
		}
		fmt.Fprintf(cfg.Log, "probe19: type %s %s\n", mark, e.Name)
	}
	if len(types) == 0 {
		return fmt.Errorf("no type matches filter %q", cfg.Filter)
	}

	gens := make([]*Gen, len(types))
	counts := make([]int, len(types))
	stats := make([]typeStats, len(types))
	for i, e := range types {
		gens[i] = NewGen(typeSeed(cfg.Seed, e.Name))
	}
	mutated := 0                   // lines where cdc.Marshal changed its argument
	identLines := map[string]int{} // identification -> number of lines that needed it
	classes := map[string]*class{}
	addClass := func(key, line string) {
		c := classes[key]
		if c == nil {
			c = &class{example: line}
			classes[key] = c
		}
		c.count++
		if len(line) < len(c.example) { // keep the shortest example
			c.example = line
		}
	}

	out := bufio.NewWriterSize(cfg.Out, 1<<20)
	defer out.Flush()

	// header: the sentinel.* messages the interface registry resolves (what an Any may hold); the model
	// answers "ok" when its own list is the same
	if _, err := out.WriteString("anytypes " + strings.Join(AnyTypes(enc.InterfaceRegistry), " ") + "\n"); err != nil {
		return err
	}

	for k := 0; k < cfg.N; k++ {
		ti := k % len(types)
		e, g := types[ti], gens[ti]
		v := e.New()
		omit := true
		switch counts[ti] {
		case 0: // the all-zero value new(T)
		case 1:
			g.Fill(v, modeMax)
			omit = false
		default:
			omit = g.r.Intn(2) == 0
			g.Fill(v, modeRandom)
		}
		counts[ti]++

		res := ProbeOne(cdc, e, v, omit)
		line := res.Line()
		if _, err := out.WriteString(line + "\n"); err != nil {
			return err
		}

		st := &stats[ti]
		st.n++
		if len(line) > st.maxLine {
			st.maxLine = len(line)
		}
		if strings.HasPrefix(res.Wire, "err:") {
			st.marshalErr++
			addClass(e.Name+" | marshal | "+normalize(res.Wire), line)
		}
		if res.RT != "1" {
			st.rtBad++
			if res.RT != "err:marshal" {
				r := res.RT
				if r == "0" {
					r = "0 differs at " + res.RTDiff
				}
				addClass(e.Name+" | rt | "+normalize(r), line)
			}
		}
		if !res.Strict {
			st.strict0++
		}
		for id := range res.Idents {
			identLines[id]++
		}
		if res.Mutated {
			mutated++
		}
		if res.JSONRT != "1" {
			st.jsonBad++
			r := res.JSONRT
			if r == "0" {
				r = "0 differs at " + res.JSONDif
			}
			addClass(e.Name+" | json_rt | "+normalize(r), line)
		}
		if res.SelfErr != "" {
			st.selfBad++
			addClass(e.Name+" | SELFCHECK | "+normalize(trimLine(res.SelfErr, 60)), line+"   ## "+res.SelfErr)
		}
	}

	// ---- summary ----
	fmt.Fprintf(cfg.Log, "\nprobe19: summary (per type): n marshal_err rt!=1 strict=0 json_rt!=1 selfcheck_fail max_line_bytes\n")
	var tot typeStats
	for i, e := range types {
		s := stats[i]
		fmt.Fprintf(cfg.Log, "probe19: sum %-58s %4d %4d %4d %4d %4d %4d %6d\n", e.Name, s.n, s.marshalErr, s.rtBad, s.strict0, s.jsonBad, s.selfBad, s.maxLine)
		tot.n += s.n
		tot.marshalErr += s.marshalErr
		tot.rtBad += s.rtBad
		tot.strict0 += s.strict0
		tot.jsonBad += s.jsonBad
		tot.selfBad += s.selfBad
		if s.maxLine > tot.maxLine {
			tot.maxLine = s.maxLine
		}
	}
	fmt.Fprintf(cfg.Log, "probe19: sum %-58s %4d %4d %4d %4d %4d %4d %6d\n", "TOTAL", tot.n, tot.marshalErr, tot.rtBad, tot.strict0, tot.jsonBad, tot.selfBad, tot.maxLine)

	fmt.Fprintf(cfg.Log, "\nprobe19: identifications needed by binary round trips (lines with rt=1 strict=0, a line may need several):\n")
	var ids []string
	for id := range identLines {
		ids = append(ids, id)
	}
	sort.Strings(ids)
	for _, id := range ids {
		fmt.Fprintf(cfg.Log, "probe19: ident %-48s %d\n", id, identLines[id])
	}

	fmt.Fprintf(cfg.Log, "probe19: lines where cdc.Marshal(v) mutated v (nil Int field replaced by 0 in place): %d\n", mutated)

	keys := make([]string, 0, len(classes))
	for k := range classes {
		keys = append(keys, k)
	}
	sort.Strings(keys)
	fmt.Fprintf(cfg.Log, "\nprobe19: failure classes (type | column | reason): count, shortest example\n")
	for _, k := range keys {
		c := classes[k]
		fmt.Fprintf(cfg.Log, "probe19: class %s : %d\n            e.g. %s\n", k, c.count, trimLine(c.example, 600))
	}
	if tot.selfBad != 0 {
		return fmt.Errorf("%d lines failed the text self-check", tot.selfBad)
	}
	return nil
}
