package probe19

import (
	"math"
	"math/big"
	"math/rand"
	"reflect"
	"sort"
	"time"

	sdkmath "cosmossdk.io/math"
	codectypes "github.com/cosmos/cosmos-sdk/codec/types"
	"github.com/cosmos/cosmos-sdk/types/bech32"

	subscriptiontypes "github.com/sentinel-official/hub/v12/x/subscription/types"
)

type genMode int

const (
	modeRandom genMode = iota
	modeMax
)

// Gen is a deterministic (per seed) type-directed value generator.
type Gen struct {
	r    *rand.Rand
	mode genMode
}

func NewGen(seed int64) *Gen { return &Gen{r: rand.New(rand.NewSource(seed))} }

const maxDepth = 8

// Fill sets every protobuf field of *msg to a generated value.
func (g *Gen) Fill(msg Msg, mode genMode) {
	g.mode = mode
	g.fillStruct(reflect.ValueOf(msg).Elem(), 0)
}

func (g *Gen) fillStruct(v reflect.Value, depth int) {
	for _, f := range fieldsOf(v.Type()) {
		g.fillField(v.Field(f.idx), f, depth)
	}
}

func (g *Gen) fillField(fv reflect.Value, f field, depth int) {
	switch f.k {
	case kU64:
		fv.SetUint(g.u64())
	case kI64:
		fv.SetInt(g.i64())
	case kI32:
		fv.SetInt(int64(g.i32()))
	case kBool:
		fv.SetBool(g.mode == modeMax || g.r.Intn(2) == 1)
	case kEnum:
		fv.SetInt(int64(g.enum(f.enum)))
	case kString:
		fv.SetString(g.str(depth))
	case kBytes:
		fv.SetBytes(g.bytes(depth))
	case kInt:
		fv.Set(reflect.ValueOf(g.sdkInt()))
	case kDec:
		fv.Set(reflect.ValueOf(g.sdkDec()))
	case kTime:
		fv.Set(reflect.ValueOf(g.time()))
	case kDur:
		fv.SetInt(int64(g.dur()))
	case kMsg:
		g.fillStruct(fv, depth+1)
	case kPtr:
		if depth >= maxDepth || (g.mode != modeMax && g.r.Intn(100) < 25) {
			fv.Set(reflect.Zero(fv.Type()))
			return
		}
		p := reflect.New(fv.Type().Elem())
		g.fillStruct(p.Elem(), depth+1)
		fv.Set(p)
	case kAny:
		if depth >= maxDepth || (g.mode != modeMax && g.r.Intn(100) < 20) {
			fv.Set(reflect.Zero(fv.Type()))
			return
		}
		fv.Set(reflect.ValueOf(g.any(depth + 1)))
	case kList:
		g.fillList(fv, f, depth)
	}
}

func (g *Gen) fillList(fv reflect.Value, f field, depth int) {
	st := fv.Type()
	n := 0
	if g.mode == modeMax {
		n = 2
		if depth >= 1 {
			n = 1
		}
	} else {
		p := g.r.Intn(100)
		switch {
		case depth >= maxDepth || p < 15:
			fv.Set(reflect.Zero(st)) // nil
			return
		case p < 25:
			fv.Set(reflect.MakeSlice(st, 0, 0)) // empty, non-nil
			return
		}
		switch depth {
		case 0:
			n = 1 + g.r.Intn(4)
		case 1:
			n = 1 + g.r.Intn(3)
		default:
			n = 1 + g.r.Intn(2)
		}
	}
	s := reflect.MakeSlice(st, n, n)
	for i := 0; i < n; i++ {
		e := s.Index(i)
		switch f.ek {
		case kString:
			e.SetString(g.str(depth))
		case kMsg:
			g.fillStruct(e, depth+1)
		case kPtr: // never nil inside a slice
			p := reflect.New(st.Elem().Elem())
			g.fillStruct(p.Elem(), depth+1)
			e.Set(p)
		case kAny:
			e.Set(reflect.ValueOf(g.any(depth + 1)))
		}
	}
	fv.Set(s)
}

// ---- scalars ----

var u64Edges = []uint64{0, 1, 127, 128, 1 << 32, 1<<63 - 1, 1 << 63, math.MaxUint64}

func (g *Gen) u64() uint64 {
	if g.mode == modeMax {
		return math.MaxUint64
	}
	switch p := g.r.Intn(100); {
	case p < 45:
		return u64Edges[g.r.Intn(len(u64Edges))]
	case p < 70:
		return uint64(g.r.Intn(100000))
	default:
		return g.r.Uint64()
	}
}

var i64Edges = []int64{0, 1, -1, math.MaxInt64, math.MinInt64}

func (g *Gen) i64() int64 {
	if g.mode == modeMax {
		return math.MaxInt64
	}
	switch p := g.r.Intn(100); {
	case p < 45:
		return i64Edges[g.r.Intn(len(i64Edges))]
	case p < 70:
		return int64(g.r.Intn(200000)) - 100000
	default:
		return int64(g.r.Uint64())
	}
}

var i32Edges = []int32{0, 1, -1, math.MaxInt32, math.MinInt32}

func (g *Gen) i32() int32 {
	if g.mode == modeMax {
		return math.MaxInt32
	}
	switch p := g.r.Intn(100); {
	case p < 45:
		return i32Edges[g.r.Intn(len(i32Edges))]
	case p < 70:
		return int32(g.r.Intn(2000)) - 1000
	default:
		return int32(g.r.Uint32())
	}
}

func (g *Gen) enum(name string) int32 {
	if g.mode == modeMax {
		return math.MaxInt32
	}
	var vals []int32
	for _, v := range enumValues(name) {
		vals = append(vals, v)
	}
	sort.Slice(vals, func(i, j int) bool { return vals[i] < vals[j] })
	nDeclared := len(vals)
	vals = append(vals, -1, 4, math.MaxInt32, math.MinInt32)
	// 75%: a declared value; 25%: an out-of-range one
	if nDeclared > 0 && g.r.Intn(100) < 75 {
		return vals[g.r.Intn(nDeclared)]
	}
	return vals[nDeclared+g.r.Intn(4)]
}

func (g *Gen) randBytes(n int) []byte {
	b := make([]byte, n)
	g.r.Read(b)
	return b
}

const asciiAlphabet = "abcdefghijklmnopqrstuvwxyzABCDEFGHIJKLMNOPQRSTUVWXYZ0123456789 -_/.:"

func (g *Gen) ascii(n int) string {
	b := make([]byte, n)
	for i := range b {
		b[i] = asciiAlphabet[g.r.Intn(len(asciiAlphabet))]
	}
	return string(b)
}

var (
	bech32Prefixes = []string{"sent", "sentnode", "sentprov"}
	bech32Lens     = []int{1, 20, 32, 255}
)

func (g *Gen) bech32() string {
	hrp := bech32Prefixes[g.r.Intn(len(bech32Prefixes))]
	// 20 is the overwhelmingly common length in practice; weight it
	n := 20
	if g.r.Intn(100) < 50 {
		n = bech32Lens[g.r.Intn(len(bech32Lens))]
	}
	s, err := bech32.ConvertAndEncode(hrp, g.randBytes(n))
	if err != nil {
		panic("probe19: bech32: " + err.Error())
	}
	return s
}

func (g *Gen) str(depth int) string {
	if g.mode == modeMax {
		if depth >= 2 { // keep the maximal value of deep genesis types below ~20 kB
			return g.ascii(48)
		}
		return g.ascii(300)
	}
	switch p := g.r.Intn(100); {
	case p < 12:
		return ""
	case p < 30:
		return g.ascii(1 + g.r.Intn(12))
	case p < 38:
		return "é漢"
	case p < 78:
		return g.bech32()
	case p < 88:
		return "https://node-" + g.ascii(1+g.r.Intn(6)) + ".example.com:8585/path?q=1"
	case p < 90:
		// invalid UTF-8 (~2%)
		if g.r.Intn(2) == 0 {
			return "\xff\xfe"
		}
		return "ab\xc3(\x80z"
	case p < 98:
		return "udvpn"
	default:
		if depth >= 2 {
			return g.ascii(40)
		}
		return g.ascii(300)
	}
}

var bytesLens = []int{1, 20, 32, 64, 300}

func (g *Gen) bytes(depth int) []byte {
	if g.mode == modeMax {
		if depth >= 2 {
			return g.randBytes(64)
		}
		return g.randBytes(300)
	}
	switch p := g.r.Intn(100); {
	case p < 12:
		return nil
	case p < 24:
		return []byte{}
	default:
		return g.randBytes(bytesLens[g.r.Intn(len(bytesLens))])
	}
}

// ---- big numbers ----

func pow2(n uint) *big.Int { return new(big.Int).Lsh(big.NewInt(1), n) }

func (g *Gen) randBig(bits int) *big.Int {
	x := new(big.Int).Rand(g.r, pow2(uint(bits)))
	if g.r.Intn(2) == 0 {
		x.Neg(x)
	}
	return x
}

func (g *Gen) sdkInt() sdkmath.Int {
	max256 := new(big.Int).Sub(pow2(256), big.NewInt(1))
	if g.mode == modeMax {
		return sdkmath.NewIntFromBigInt(max256)
	}
	switch g.r.Intn(12) {
	case 0:
		return sdkmath.Int{} // nil
	case 1:
		return sdkmath.ZeroInt()
	case 2:
		return sdkmath.OneInt()
	case 3:
		return sdkmath.NewInt(-1)
	case 4:
		return sdkmath.NewIntFromBigInt(pow2(63))
	case 5:
		return sdkmath.NewIntFromBigInt(pow2(255))
	case 6:
		return sdkmath.NewIntFromBigInt(max256)
	case 7:
		return sdkmath.NewIntFromBigInt(new(big.Int).Neg(max256))
	case 8, 9:
		return sdkmath.NewIntFromBigInt(g.randBig(100))
	default:
		return sdkmath.NewInt(int64(g.r.Intn(2000000)) - 1000)
	}
}

func (g *Gen) sdkDec() sdkmath.LegacyDec {
	mk := func(x *big.Int) sdkmath.LegacyDec { return sdkmath.LegacyNewDecFromBigIntWithPrec(x, 18) }
	if g.mode == modeMax {
		return mk(pow2(300))
	}
	switch p := g.r.Intn(100); {
	case p < 8:
		return sdkmath.LegacyDec{} // nil
	case p < 16:
		return sdkmath.LegacyZeroDec()
	case p < 24:
		return sdkmath.LegacyOneDec()
	case p < 32:
		return sdkmath.LegacySmallestDec() // 0.000000000000000001
	case p < 40:
		return sdkmath.LegacyMustNewDecFromStr("-1.5")
	case p < 48:
		return mk(pow2(300))
	case p < 52:
		// largest magnitude Unmarshal accepts: bit length 315
		return mk(new(big.Int).Sub(pow2(315), big.NewInt(1)))
	case p < 54:
		// one bit too many for LegacyDec.Unmarshal (max bit length 315): Marshal succeeds
		return mk(pow2(315))
	case p < 75:
		return mk(g.randBig(100))
	default:
		return mk(big.NewInt(int64(g.r.Intn(2000000)) * 1e12)) // small fractions
	}
}

// ---- time ----

func (g *Gen) time() time.Time {
	if g.mode == modeMax {
		return time.Date(9999, 12, 31, 23, 59, 59, 999999999, time.UTC)
	}
	if g.r.Intn(100) < 3 {
		// out of the Timestamp range: Marshal fails
		if g.r.Intn(2) == 0 {
			return time.Date(10000, 1, 1, 0, 0, 0, 0, time.UTC)
		}
		return time.Date(0, 6, 15, 12, 0, 0, 0, time.UTC)
	}
	lo := time.Date(1970, 1, 1, 0, 0, 0, 0, time.UTC).Unix()
	hi := time.Date(2100, 1, 1, 0, 0, 0, 0, time.UTC).Unix()
	rnd := func() time.Time {
		return time.Unix(lo+g.r.Int63n(hi-lo), g.r.Int63n(1e9)).UTC()
	}
	switch g.r.Intn(10) {
	case 0:
		return time.Time{}
	case 1:
		return time.Unix(0, 0).UTC()
	case 2:
		return time.Unix(0, 1).UTC()
	case 3:
		return time.Date(9999, 12, 31, 23, 59, 59, 999999999, time.UTC)
	case 4:
		return time.Date(1, 1, 1, 0, 0, 0, 1, time.UTC)
	case 5:
		return rnd().In(time.FixedZone("X", 3600))
	case 6:
		// before the epoch, with nanos: seconds negative, nanos positive
		return time.Unix(-1-g.r.Int63n(1e9), 1+g.r.Int63n(999999999)).UTC()
	default:
		return rnd()
	}
}

var durEdges = []time.Duration{0, 1, -1, time.Second, -time.Second,
	1500 * time.Millisecond, -1500 * time.Millisecond, math.MaxInt64, math.MinInt64}

func (g *Gen) dur() time.Duration {
	if g.mode == modeMax {
		return math.MaxInt64
	}
	switch p := g.r.Intn(100); {
	case p < 55:
		return durEdges[g.r.Intn(len(durEdges))]
	case p < 75:
		return time.Duration(g.r.Int63n(int64(1000*time.Hour))) - 500*time.Hour
	default:
		return time.Duration(g.r.Uint64())
	}
}

// ---- Any ----

// anyPackable: the table entries of the messages the interface registry resolves, other than the two
// subscription kinds (set by SetAnyPackable before generating; empty = that case is skipped).
var anyPackable []tableEntry

// SetAnyPackable derives anyPackable from the registry's resolvable names (AnyTypes).
func SetAnyPackable(names []string) {
	want := map[string]bool{}
	for _, n := range names {
		want[n] = true
	}
	anyPackable = nil
	for _, e := range typeTable {
		if want[e.name] && e.name != "sentinel.subscription.v2.NodeSubscription" && e.name != "sentinel.subscription.v2.PlanSubscription" {
			anyPackable = append(anyPackable, e)
		}
	}
}

// subscription generates a random Node- or PlanSubscription that marshals.
func (g *Gen) subscription(depth int) Msg {
	for try := 0; ; try++ {
		var m Msg
		if g.r.Intn(2) == 0 {
			m = new(subscriptiontypes.NodeSubscription)
		} else {
			m = new(subscriptiontypes.PlanSubscription)
		}
		g.fillStruct(reflect.ValueOf(m).Elem(), depth)
		if _, err := m.Marshal(); err == nil {
			return m
		}
		if try > 50 {
			panic("probe19: cannot generate a marshallable subscription")
		}
	}
}

func (g *Gen) any(depth int) *codectypes.Any {
	if g.mode == modeMax {
		a, err := codectypes.NewAnyWithValue(g.subscription(depth))
		if err != nil {
			panic(err)
		}
		return a
	}
	// of the non-nil ones: 87.5% packed with a cached value, 12.5% hand-made
	if g.r.Intn(1000) < 875 {
		a, err := codectypes.NewAnyWithValue(g.subscription(depth))
		if err != nil {
			panic(err)
		}
		return a
	}
	switch g.r.Intn(6) {
	case 4, 5:
		// any other implementation the interface registry resolves (the requests and responses of the
		// message services): at the level of the codec an Any may hold it, and most of them have no
		// Status field, so this is the Any whose JSON round trip SUCCEEDS
		if len(anyPackable) > 0 {
			for try := 0; try < 20; try++ {
				m := anyPackable[g.r.Intn(len(anyPackable))].new()
				g.fillStruct(reflect.ValueOf(m).Elem(), depth)
				if _, err := m.Marshal(); err != nil {
					continue
				}
				a, err := codectypes.NewAnyWithValue(m)
				if err != nil {
					panic(err)
				}
				if g.r.Intn(2) == 0 { // half of them without the cached value
					return &codectypes.Any{TypeUrl: a.TypeUrl, Value: a.Value}
				}
				return a
			}
		}
		fallthrough
	case 0:
		// registered URL, valid bytes, no cached value
		m := g.subscription(depth)
		bz, _ := m.Marshal()
		return &codectypes.Any{TypeUrl: "/" + msgName(m), Value: bz}
	case 1:
		// registered URL, but bytes of the *other* kind or garbage
		return &codectypes.Any{TypeUrl: "/sentinel.subscription.v2.NodeSubscription", Value: g.randBytes(1 + g.r.Intn(12))}
	case 2:
		return &codectypes.Any{TypeUrl: "/foo.Bar", Value: g.randBytes(g.r.Intn(12))}
	default:
		// a sentinel type that is not an implementation of any interface
		return &codectypes.Any{TypeUrl: "/sentinel.types.v1.Bandwidth", Value: nil}
	}
}
