package probe19

import (
	"encoding/hex"
	"fmt"
	"math/big"
	"strconv"
)

// A strict parser of the value-text grammar plus an independent, schema-less
// wire encoder working from the parsed text only. Both exist purely as a
// self-check: every emitted line is re-parsed, and the re-encoded bytes are
// compared with what the real codec produced. If that comparison holds, the
// text describes the value completely (as far as the wire format goes).

type pField struct {
	num int
	val pVal
}

type pVal struct {
	tag    byte // 'u','s','i','t','d','m','n','l'
	u      uint64
	bz     []byte
	big    *big.Int // nil for i:nil
	sec    int64
	nanos  int64
	fields []pField // 'm'
	elems  []pVal   // 'l'
}

type parser struct {
	s string
	i int
}

func (p *parser) errf(format string, a ...any) error {
	return fmt.Errorf("at %d: %s", p.i, fmt.Sprintf(format, a...))
}

func (p *parser) peek() byte {
	if p.i < len(p.s) {
		return p.s[p.i]
	}
	return 0
}

func (p *parser) expect(c byte) error {
	if p.peek() != c {
		return p.errf("expected %q, got %q", c, p.peek())
	}
	p.i++
	return nil
}

// decimal: [-] digit+ with no superfluous leading zeros and no "-0"
func (p *parser) decimal(allowNeg bool) (string, error) {
	st := p.i
	if allowNeg && p.peek() == '-' {
		p.i++
	}
	ds := p.i
	for p.peek() >= '0' && p.peek() <= '9' {
		p.i++
	}
	if p.i == ds {
		return "", p.errf("expected digits")
	}
	if p.s[ds] == '0' && (p.i-ds > 1 || ds > st) {
		return "", p.errf("non-canonical decimal %q", p.s[st:p.i])
	}
	return p.s[st:p.i], nil
}

func (p *parser) hexBytes() ([]byte, error) {
	st := p.i
	for c := p.peek(); (c >= '0' && c <= '9') || (c >= 'a' && c <= 'f'); c = p.peek() {
		p.i++
	}
	if (p.i-st)%2 != 0 {
		return nil, p.errf("odd hex length")
	}
	return hex.DecodeString(p.s[st:p.i])
}

// fields := field { ' ' field } | empty ; terminated by ')' or end of input
func (p *parser) fields() ([]pField, error) {
	var out []pField
	if p.peek() != '(' {
		return out, nil
	}
	last := 0
	for {
		if err := p.expect('('); err != nil {
			return nil, err
		}
		ns, err := p.decimal(false)
		if err != nil {
			return nil, err
		}
		num, _ := strconv.Atoi(ns)
		if num <= last {
			return nil, p.errf("field numbers not strictly ascending (%d after %d)", num, last)
		}
		last = num
		if err := p.expect(' '); err != nil {
			return nil, err
		}
		v, err := p.val()
		if err != nil {
			return nil, err
		}
		if err := p.expect(')'); err != nil {
			return nil, err
		}
		out = append(out, pField{num, v})
		if p.peek() != ' ' {
			return out, nil
		}
		p.i++
	}
}

func (p *parser) val() (pVal, error) {
	if p.i+2 > len(p.s) || p.s[p.i+1] != ':' {
		return pVal{}, p.errf("expected '<tag>:'")
	}
	tag := p.s[p.i]
	p.i += 2
	v := pVal{tag: tag}
	switch tag {
	case 'u':
		ds, err := p.decimal(false)
		if err != nil {
			return v, err
		}
		u, err := strconv.ParseUint(ds, 10, 64)
		if err != nil {
			return v, p.errf("%v", err)
		}
		v.u = u
	case 's':
		bz, err := p.hexBytes()
		if err != nil {
			return v, err
		}
		v.bz = bz
	case 'i':
		if p.i+3 <= len(p.s) && p.s[p.i:p.i+3] == "nil" {
			p.i += 3
			return v, nil
		}
		ds, err := p.decimal(true)
		if err != nil {
			return v, err
		}
		v.big, _ = new(big.Int).SetString(ds, 10)
	case 't':
		ds, err := p.decimal(true)
		if err != nil {
			return v, err
		}
		if v.sec, err = strconv.ParseInt(ds, 10, 64); err != nil {
			return v, p.errf("%v", err)
		}
		if err := p.expect(':'); err != nil {
			return v, err
		}
		if ds, err = p.decimal(false); err != nil {
			return v, err
		}
		if v.nanos, err = strconv.ParseInt(ds, 10, 64); err != nil || v.nanos > 999999999 {
			return v, p.errf("bad nanos %q", ds)
		}
	case 'd':
		ds, err := p.decimal(true)
		if err != nil {
			return v, err
		}
		if v.sec, err = strconv.ParseInt(ds, 10, 64); err != nil {
			return v, p.errf("%v", err)
		}
	case 'm':
		if err := p.expect('('); err != nil {
			return v, err
		}
		fs, err := p.fields()
		if err != nil {
			return v, err
		}
		v.fields = fs
		if err := p.expect(')'); err != nil {
			return v, err
		}
	case 'n':
	case 'l':
		if err := p.expect('('); err != nil {
			return v, err
		}
		if p.peek() != ')' {
			for {
				e, err := p.val()
				if err != nil {
					return v, err
				}
				if e.tag != 's' && e.tag != 'm' {
					return v, p.errf("list element must be s: or m:, got %c:", e.tag)
				}
				if len(v.elems) > 0 && v.elems[0].tag != e.tag {
					return v, p.errf("heterogeneous list")
				}
				v.elems = append(v.elems, e)
				if p.peek() != ' ' {
					break
				}
				p.i++
			}
		}
		if err := p.expect(')'); err != nil {
			return v, err
		}
	default:
		return v, p.errf("unknown tag %q", tag)
	}
	return v, nil
}

// ParseText parses a complete top-level value text.
func ParseText(s string) ([]pField, error) {
	p := &parser{s: s}
	fs, err := p.fields()
	if err != nil {
		return nil, err
	}
	if p.i != len(s) {
		return nil, p.errf("trailing input %q", s[p.i:])
	}
	return fs, nil
}

// ---- schema-less re-encoder ----

func appendVarint(b []byte, x uint64) []byte {
	for x >= 0x80 {
		b = append(b, byte(x)|0x80)
		x >>= 7
	}
	return append(b, byte(x))
}

func appendLenDelim(b []byte, num int, payload []byte) []byte {
	b = appendVarint(b, uint64(num)<<3|2)
	b = appendVarint(b, uint64(len(payload)))
	return append(b, payload...)
}

// secondsNanos encodes the body shared by Timestamp and Duration.
func secondsNanos(sec, nanos int64) []byte {
	var b []byte
	if sec != 0 {
		b = appendVarint(b, 1<<3)
		b = appendVarint(b, uint64(sec))
	}
	if nanos != 0 {
		b = appendVarint(b, 2<<3)
		b = appendVarint(b, uint64(nanos)) // int32 sign-extended
	}
	return b
}

// EncodeFields encodes parsed fields following the gogoproto-generated
// marshalling rules for proto3 with the hub's options.
func EncodeFields(fs []pField) []byte {
	var b []byte
	for _, f := range fs {
		b = encodeVal(b, f.num, f.val, false)
	}
	return b
}

func encodeVal(b []byte, num int, v pVal, inList bool) []byte {
	switch v.tag {
	case 'u':
		if v.u != 0 {
			b = appendVarint(b, uint64(num)<<3)
			b = appendVarint(b, v.u)
		}
	case 's':
		if len(v.bz) != 0 || inList {
			b = appendLenDelim(b, num, v.bz)
		}
	case 'i':
		s := "0"
		if v.big != nil {
			s = v.big.String()
		}
		b = appendLenDelim(b, num, []byte(s))
	case 't':
		b = appendLenDelim(b, num, secondsNanos(v.sec, v.nanos))
	case 'd':
		// Go truncated division, like gogoproto's durationProto
		b = appendLenDelim(b, num, secondsNanos(v.sec/1e9, v.sec%1e9))
	case 'm':
		b = appendLenDelim(b, num, EncodeFields(v.fields))
	case 'n':
	case 'l':
		for _, e := range v.elems {
			b = encodeVal(b, num, e, true)
		}
	}
	return b
}
