// Package probe19 is the Go side of the C19 differential probe: it generates
// type-directed random values of the hub's concrete protobuf Go types,
// marshals them with the real application codec and prints one line per value
// (value text, wire bytes, round-trip verdicts).
//
// Output of Run (one line each; the Lean model `hubmodel --probe` answers line by line):
//
//	anytypes <name> <name> …
//	    the sentinel.* messages the interface registry resolves (what an Any may hold), sorted;
//	    model answer: `ok` | `DIFF model=<its list>`
//	pb <type> <value text> => <wire hex|-|err:…> rt=<1|0|err:…> strict=<0|1> json_rt=<1|0|err:…> json=<tree|-|err:…>
//	    json_rt: real MarshalJSON then UnmarshalJSON of the value gives it back (modulo the identifications
//	    of equal.go); json: canonical text (canonjson.go) of MarshalJSON of the value as read back from its
//	    bytes (its binary normal form), `-` if it did not come back;
//	    model answer: `<model wire hex|err:…> ;; json=<1|0|-> <canonical text of the model's JSON tree|->`
//	    (json=1|0 is the model's PREDICTION of json_rt; Hub/SDK/ProtoJson.lean, Hub/Props/C19Json.lean)
package probe19

import (
	"fmt"
	"reflect"
	"sort"
	"strconv"
	"strings"
	"sync"
	"time"

	sdkmath "cosmossdk.io/math"
	codectypes "github.com/cosmos/cosmos-sdk/codec/types"
)

// kind is the codec-level classification of a Go struct field.
type kind int

const (
	kU64 kind = iota
	kI64
	kI32
	kBool
	kEnum
	kString
	kBytes
	kInt  // sdkmath.Int customtype
	kDec  // sdkmath.LegacyDec customtype
	kTime // stdtime
	kDur  // stdduration
	kMsg  // struct value (non-nullable message)
	kPtr  // pointer to struct (nullable message), incl. embedded
	kAny  // *codectypes.Any
	kList // repeated: elem is kString, kMsg, kPtr or kAny
)

var (
	tInt  = reflect.TypeOf(sdkmath.Int{})
	tDec  = reflect.TypeOf(sdkmath.LegacyDec{})
	tTime = reflect.TypeOf(time.Time{})
	tDur  = reflect.TypeOf(time.Duration(0))
	tAny  = reflect.TypeOf(codectypes.Any{})
)

// field is the parsed `protobuf:"..."` tag of one struct field.
type field struct {
	idx      int // index in the Go struct
	num      int // protobuf field number
	goName   string
	wire     string // "varint", "bytes", ...
	rep      bool
	custom   string
	stdtime  bool
	stddur   bool
	enum     string
	embedded bool
	k        kind
	ek       kind // element kind for kList
}

var (
	fieldCacheMu sync.Mutex
	fieldCache   = map[reflect.Type][]field{}
)

// fieldsOf returns the protobuf fields of struct type t in ascending field
// number order. It panics on a field shape the probe does not understand, so
// that nothing is skipped silently.
func fieldsOf(t reflect.Type) []field {
	fieldCacheMu.Lock()
	defer fieldCacheMu.Unlock()
	if fs, ok := fieldCache[t]; ok {
		return fs
	}
	var fs []field
	for i := 0; i < t.NumField(); i++ {
		sf := t.Field(i)
		tag, ok := sf.Tag.Lookup("protobuf")
		if !ok {
			continue
		}
		if !sf.IsExported() {
			panic(fmt.Sprintf("probe19: %s.%s: unexported protobuf field", t, sf.Name))
		}
		if _, oneof := sf.Tag.Lookup("protobuf_oneof"); oneof {
			panic(fmt.Sprintf("probe19: %s.%s: oneof not supported", t, sf.Name))
		}
		parts := strings.Split(tag, ",")
		if len(parts) < 2 {
			panic(fmt.Sprintf("probe19: %s.%s: bad tag %q", t, sf.Name, tag))
		}
		num, err := strconv.Atoi(parts[1])
		if err != nil {
			panic(fmt.Sprintf("probe19: %s.%s: bad tag %q", t, sf.Name, tag))
		}
		f := field{idx: i, num: num, goName: sf.Name, wire: parts[0]}
		for _, p := range parts[2:] {
			switch {
			case p == "rep":
				f.rep = true
			case p == "stdtime":
				f.stdtime = true
			case p == "stdduration":
				f.stddur = true
			case strings.HasPrefix(p, "customtype="):
				f.custom = strings.TrimPrefix(p, "customtype=")
			case strings.HasPrefix(p, "enum="):
				f.enum = strings.TrimPrefix(p, "enum=")
			case strings.HasPrefix(p, "embedded="):
				f.embedded = true
			}
		}
		classify(t, sf, &f)
		fs = append(fs, f)
	}
	sort.SliceStable(fs, func(i, j int) bool { return fs[i].num < fs[j].num })
	for i := 1; i < len(fs); i++ {
		if fs[i].num == fs[i-1].num {
			panic(fmt.Sprintf("probe19: %s: duplicate field number %d", t, fs[i].num))
		}
	}
	fieldCache[t] = fs
	return fs
}

func classify(owner reflect.Type, sf reflect.StructField, f *field) {
	bad := func() {
		panic(fmt.Sprintf("probe19: %s.%s: unsupported field shape %s (tag %q)",
			owner, sf.Name, sf.Type, sf.Tag.Get("protobuf")))
	}
	ft := sf.Type
	if f.rep {
		if ft.Kind() != reflect.Slice {
			bad()
		}
		f.k = kList
		et := ft.Elem()
		switch {
		case et.Kind() == reflect.String:
			f.ek = kString
		case et == tInt || et == tDec || et == tTime:
			bad()
		case et.Kind() == reflect.Struct:
			f.ek = kMsg
		case et.Kind() == reflect.Ptr && et.Elem() == tAny:
			f.ek = kAny
		case et.Kind() == reflect.Ptr && et.Elem().Kind() == reflect.Struct:
			f.ek = kPtr
		default:
			bad()
		}
		return
	}
	switch {
	case f.custom != "":
		switch ft {
		case tInt:
			f.k = kInt
		case tDec:
			f.k = kDec
		default:
			bad()
		}
	case f.stdtime:
		if ft != tTime {
			bad()
		}
		f.k = kTime
	case f.stddur:
		if ft != tDur {
			bad()
		}
		f.k = kDur
	case f.enum != "":
		if ft.Kind() != reflect.Int32 {
			bad()
		}
		enumValues(f.enum) // panics on an enum we have no value table for
		f.k = kEnum
	case ft.Kind() == reflect.Uint64 && f.wire == "varint":
		f.k = kU64
	case ft.Kind() == reflect.Int64 && f.wire == "varint":
		f.k = kI64
	case ft.Kind() == reflect.Int32 && f.wire == "varint":
		f.k = kI32
	case ft.Kind() == reflect.Bool && f.wire == "varint":
		f.k = kBool
	case ft.Kind() == reflect.String && f.wire == "bytes":
		f.k = kString
	case ft.Kind() == reflect.Slice && ft.Elem().Kind() == reflect.Uint8 && f.wire == "bytes":
		f.k = kBytes
	case ft.Kind() == reflect.Struct && f.wire == "bytes":
		f.k = kMsg
	case ft.Kind() == reflect.Ptr && ft.Elem() == tAny:
		f.k = kAny
	case ft.Kind() == reflect.Ptr && ft.Elem().Kind() == reflect.Struct && f.wire == "bytes":
		f.k = kPtr
	default:
		bad()
	}
}

// checkShape walks the whole type graph below t and panics on anything
// unsupported (see fieldsOf).
func checkShape(t reflect.Type, seen map[reflect.Type]bool) {
	if seen[t] {
		return
	}
	seen[t] = true
	for _, f := range fieldsOf(t) {
		ft := t.Field(f.idx).Type
		k := f.k
		if k == kList {
			ft = ft.Elem()
			k = f.ek
		}
		switch k {
		case kMsg:
			checkShape(ft, seen)
		case kPtr, kAny:
			checkShape(ft.Elem(), seen)
		}
	}
}
