package sim

// all former stubs are implemented: Query in query.go, Export and Reimport in genesis.go
