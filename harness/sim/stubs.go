package sim

func (s *Sim) Query(o *Op) (string, []string)  { return "reject:notimpl", nil }
func (s *Sim) Export(o *Op) (string, []string) { return "reject:notimpl", nil }
func (r *Runner) Reimport(o *Op) (string, error) { return "reject:notimpl", nil }
