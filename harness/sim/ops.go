package sim

import (
	"encoding/base64"
	"encoding/hex"
	"fmt"
	"net/url"
	"sort"
	"strconv"
	"strings"
	"time"

	sdkmath "cosmossdk.io/math"
	abci "github.com/cometbft/cometbft/abci/types"
	sdk "github.com/cosmos/cosmos-sdk/types"
	"github.com/cosmos/cosmos-sdk/types/bech32"

	hubtypes "github.com/sentinel-official/hub/v12/types"
	customminttypes "github.com/sentinel-official/hub/v12/x/mint/types"
	nodetypes "github.com/sentinel-official/hub/v12/x/node/types"
	plantypes "github.com/sentinel-official/hub/v12/x/plan/types"
	providertypes "github.com/sentinel-official/hub/v12/x/provider/types"
	sessiontypes "github.com/sentinel-official/hub/v12/x/session/types"
	subscriptiontypes "github.com/sentinel-official/hub/v12/x/subscription/types"
	swaptypes "github.com/sentinel-official/hub/v12/x/swap/types"
)

func hexDecode(s string) ([]byte, error) {
	if s == "-" || s == "" {
		return []byte{}, nil
	}
	return hex.DecodeString(s)
}

// Op is one parsed line of the protocol.
type Op struct {
	Kind string
	Sub  string // tx kind / query kind
	F    map[string]string
	Raw  string
}

func ParseOp(line string) (*Op, error) {
	line = strings.TrimSpace(line)
	parts := strings.Fields(line)
	if len(parts) == 0 {
		return nil, fmt.Errorf("empty line")
	}
	op := &Op{Kind: parts[0], F: map[string]string{}, Raw: line}
	rest := parts[1:]
	if (op.Kind == "tx" || op.Kind == "query") && len(rest) > 0 {
		op.Sub = rest[0]
		rest = rest[1:]
	}
	for _, p := range rest {
		i := strings.IndexByte(p, '=')
		if i < 0 {
			return nil, fmt.Errorf("bad field %q in %q", p, line)
		}
		op.F[p[:i]] = p[i+1:]
	}
	return op, nil
}

func (o *Op) str(k string) string { return o.F[k] }

func (o *Op) has(k string) bool { _, ok := o.F[k]; return ok }

func (o *Op) bytes(k string) []byte {
	b, err := hexDecode(o.F[k])
	if err != nil {
		panic(fmt.Errorf("field %s: %v", k, err))
	}
	return b
}

func (o *Op) text(k string) string { return string(o.bytes(k)) }

func (o *Op) i64(k string) int64 {
	v, err := strconv.ParseInt(o.F[k], 10, 64)
	if err != nil {
		panic(fmt.Errorf("field %s: %v", k, err))
	}
	return v
}

func (o *Op) u64(k string) uint64 {
	v, err := strconv.ParseUint(o.F[k], 10, 64)
	if err != nil {
		panic(fmt.Errorf("field %s: %v", k, err))
	}
	return v
}

func (o *Op) int(k string) sdkmath.Int {
	v, ok := sdkmath.NewIntFromString(o.F[k])
	if !ok {
		panic(fmt.Errorf("field %s: bad int %q", k, o.F[k]))
	}
	return v
}

// dec parses the 18-decimal fixed-point integer representation.
func (o *Op) dec(k string) sdkmath.LegacyDec {
	return sdkmath.LegacyNewDecFromIntWithPrec(o.int(k), 18)
}

// ParseCoins parses "denom:amt,denom:amt" without sanitising ("-" = empty non-nil, "nil" = nil).
func ParseCoins(s string) sdk.Coins {
	if s == "nil" {
		return nil
	}
	if s == "-" || s == "" {
		return sdk.Coins{}
	}
	var out sdk.Coins
	for _, p := range strings.Split(s, ",") {
		i := strings.LastIndexByte(p, ':')
		amt, ok := sdkmath.NewIntFromString(p[i+1:])
		if !ok {
			panic(fmt.Errorf("bad coin %q", p))
		}
		out = append(out, sdk.Coin{Denom: p[:i], Amount: amt})
	}
	return out
}

func ParseCoin(s string) sdk.Coin {
	cs := ParseCoins(s)
	if len(cs) != 1 {
		panic(fmt.Errorf("bad coin %q", s))
	}
	return cs[0]
}

func FmtCoins(cs sdk.Coins) string {
	if cs == nil || len(cs) == 0 {
		return "-"
	}
	parts := make([]string, len(cs))
	for i, c := range cs {
		parts[i] = c.Denom + ":" + c.Amount.String()
	}
	return strings.Join(parts, ",")
}

func FmtCoin(c sdk.Coin) string {
	if c.Amount.IsNil() {
		return c.Denom + ":nil"
	}
	return c.Denom + ":" + c.Amount.String()
}

var rolePrefix = map[string]string{
	"acc":  hubtypes.Bech32PrefixAccAddr,
	"node": hubtypes.Bech32PrefixNodeAddr,
	"prov": hubtypes.Bech32PrefixProvAddr,
}

// addrText renders the address field k for the given default role; `<k>role=` overrides the role
// (role confusion), `<k>bad=1` corrupts the checksum.
func (o *Op) addrText(k, role string) string {
	if r, ok := o.F[k+"role"]; ok {
		role = r
	}
	b := o.bytes(k)
	if len(b) == 0 {
		return ""
	}
	s, err := bech32.ConvertAndEncode(rolePrefix[role], b)
	if err != nil {
		panic(err)
	}
	if o.F[k+"upper"] == "1" {
		// the all-upper-case spelling of the same address: bech32 accepts it and it decodes to the same bytes
		s = strings.ToUpper(s)
	}
	if o.F[k+"bad"] == "1" {
		last := s[len(s)-1]
		repl := byte('q')
		if last == 'q' {
			repl = 'p'
		}
		s = s[:len(s)-1] + string(repl)
	}
	return s
}

// URLOK is the harness's independent statement of which remote URLs are acceptable
// (https scheme, explicit port, at most 64 characters) – used by the generator to set `urlok`.
func URLOK(s string) bool {
	if s == "" || len(s) > 64 {
		return false
	}
	u, err := url.ParseRequestURI(s)
	if err != nil {
		return false
	}
	return u.Scheme == "https" && u.Port() != ""
}

// WebOK says whether a provider website string is acceptable.
func WebOK(s string) bool {
	if len(s) > 64 {
		return false
	}
	if s == "" {
		return true
	}
	_, err := url.ParseRequestURI(s)
	return err == nil
}

// BuildMsg turns a `tx` op into the real message type.
func (s *Sim) BuildMsg(o *Op) (sdk.Msg, error) {
	switch o.Sub {
	case "provRegister":
		return &providertypes.MsgRegisterRequest{From: o.addrText("from", "acc"), Name: o.text("name"), Identity: o.text("identity"),
			Website: o.text("website"), Description: o.text("desc")}, nil
	case "provUpdate":
		return &providertypes.MsgUpdateRequest{From: o.addrText("from", "prov"), Name: o.text("name"), Identity: o.text("identity"),
			Website: o.text("website"), Description: o.text("desc"), Status: hubtypes.Status(o.i64("status"))}, nil
	case "nodeRegister":
		return &nodetypes.MsgRegisterRequest{From: o.addrText("from", "acc"), GigabytePrices: ParseCoins(o.str("gb")),
			HourlyPrices: ParseCoins(o.str("hr")), RemoteURL: o.text("url")}, nil
	case "nodeUpdate":
		return &nodetypes.MsgUpdateDetailsRequest{From: o.addrText("from", "node"), GigabytePrices: ParseCoins(o.str("gb")),
			HourlyPrices: ParseCoins(o.str("hr")), RemoteURL: o.text("url")}, nil
	case "nodeStatus":
		return &nodetypes.MsgUpdateStatusRequest{From: o.addrText("from", "node"), Status: hubtypes.Status(o.i64("status"))}, nil
	case "nodeSubscribe":
		return &nodetypes.MsgSubscribeRequest{From: o.addrText("from", "acc"), NodeAddress: o.addrText("node", "node"),
			Gigabytes: o.i64("gb"), Hours: o.i64("hr"), Denom: o.str("denom")}, nil
	case "planCreate":
		return &plantypes.MsgCreateRequest{From: o.addrText("from", "prov"), Duration: time.Duration(o.i64("dur")),
			Gigabytes: o.i64("gb"), Prices: ParseCoins(o.str("prices"))}, nil
	case "planStatus":
		return &plantypes.MsgUpdateStatusRequest{From: o.addrText("from", "prov"), ID: o.u64("id"), Status: hubtypes.Status(o.i64("status"))}, nil
	case "planLink":
		return &plantypes.MsgLinkNodeRequest{From: o.addrText("from", "prov"), ID: o.u64("id"), NodeAddress: o.addrText("node", "node")}, nil
	case "planUnlink":
		return &plantypes.MsgUnlinkNodeRequest{From: o.addrText("from", "prov"), ID: o.u64("id"), NodeAddress: o.addrText("node", "node")}, nil
	case "planSubscribe":
		return &plantypes.MsgSubscribeRequest{From: o.addrText("from", "acc"), ID: o.u64("id"), Denom: o.str("denom")}, nil
	case "subCancel":
		return &subscriptiontypes.MsgCancelRequest{From: o.addrText("from", "acc"), ID: o.u64("id")}, nil
	case "subAllocate":
		return &subscriptiontypes.MsgAllocateRequest{From: o.addrText("from", "acc"), ID: o.u64("id"), Address: o.addrText("to", "acc"), Bytes: o.int("bytes")}, nil
	case "sessStart":
		return &sessiontypes.MsgStartRequest{From: o.addrText("from", "acc"), ID: o.u64("id"), Address: o.addrText("node", "node")}, nil
	case "sessUpdate":
		proof := sessiontypes.Proof{ID: o.u64("id"), Duration: time.Duration(o.i64("dur")),
			Bandwidth: hubtypes.NewBandwidth(o.int("up"), o.int("down"))}
		msg := &sessiontypes.MsgUpdateDetailsRequest{From: o.addrText("from", "node"), Proof: proof}
		sig, err := s.signature(o, proof)
		if err != nil {
			return nil, err
		}
		msg.Signature = sig
		return msg, nil
	case "sessEnd":
		return &sessiontypes.MsgEndRequest{From: o.addrText("from", "acc"), ID: o.u64("id"), Rating: o.u64("rating")}, nil
	case "swap":
		return &swaptypes.MsgSwapRequest{From: o.addrText("from", "acc"), TxHash: o.bytes("hash"), Receiver: o.addrText("recv", "acc"), Amount: o.int("amt")}, nil
	}
	return nil, fmt.Errorf("unknown tx kind %q", o.Sub)
}

// signature builds the usage-report signature requested by `sig=`:
// none | good:<keyidx> (that key over exactly proof.Marshal()) | badmsg:<keyidx> (that key over a different
// proof) | short (63 bytes) | zero (64 zero bytes).
func (s *Sim) signature(o *Op, proof sessiontypes.Proof) ([]byte, error) {
	spec := o.str("sig")
	switch {
	case spec == "" || spec == "none":
		return nil, nil
	case spec == "short":
		return make([]byte, 63), nil
	case spec == "zero":
		return make([]byte, 64), nil
	case strings.HasPrefix(spec, "good:"), strings.HasPrefix(spec, "badmsg:"):
		i := strings.IndexByte(spec, ':')
		idx, err := strconv.Atoi(spec[i+1:])
		if err != nil {
			return nil, err
		}
		p := proof
		if strings.HasPrefix(spec, "badmsg:") {
			p.Duration = p.Duration + 1
		}
		bz, err := p.Marshal()
		if err != nil {
			return nil, err
		}
		return KeyFor(idx).Sign(bz)
	}
	return nil, fmt.Errorf("bad sig spec %q", spec)
}

// ApplyInit fills the configuration from an `init` line.
func (c *Config) ApplyInit(o *Op) {
	c.Time = o.i64("t")
	c.ProviderDeposit = ParseCoin(o.str("provDeposit"))
	c.ProviderShare = o.dec("provShare")
	c.NodeDeposit = ParseCoin(o.str("nodeDeposit"))
	c.NodeActiveDuration = time.Duration(o.i64("activeDur"))
	c.MaxGB, c.MinGB = ParseCoins(o.str("maxGB")), ParseCoins(o.str("minGB"))
	c.MaxHr, c.MinHr = ParseCoins(o.str("maxHr")), ParseCoins(o.str("minHr"))
	c.MaxSubGB, c.MinSubGB = o.i64("maxSubGB"), o.i64("minSubGB")
	c.MaxSubHr, c.MinSubHr = o.i64("maxSubHr"), o.i64("minSubHr")
	c.NodeShare = o.dec("nodeShare")
	c.SubDelay = time.Duration(o.i64("subDelay"))
	c.SessDelay = time.Duration(o.i64("sessDelay"))
	c.ProofOn = o.str("proof") == "1"
	c.SwapEnabled = o.str("swapOn") == "1"
	c.SwapDenom = o.str("swapDenom")
	c.ApproveBy = o.bytes("approveBy")
	if c.Keyed == nil {
		c.Keyed = map[string]int{}
	}
}

func (c *Config) ApplyBal(o *Op) {
	c.Balances = append(c.Balances, Balance{Addr: o.bytes("addr"), Denom: o.str("denom"), Amt: o.int("amt")})
}

func (c *Config) ApplyKey(o *Op) {
	idx := int(o.i64("idx"))
	addr := sdk.AccAddress(KeyFor(idx).PubKey().Address())
	if o.has("addr") && hex.EncodeToString(addr) != o.str("addr") {
		panic(fmt.Errorf("key %d has address %x, not %s", idx, []byte(addr), o.str("addr")))
	}
	c.Keyed[hex.EncodeToString(addr)] = idx
}

func (c *Config) ApplyInfl(o *Op) {
	c.Inflations = append(c.Inflations, customminttypes.Inflation{
		Max: o.dec("max"), Min: o.dec("min"), RateChange: o.dec("rate"), Timestamp: unixNano(o.i64("ts")),
	})
}

// Gov applies one parameter change exactly the way the params proposal handler does
// (Subspace.Update: amino-JSON decode, validate with the registered validator, Set -> marks the
// transient store). It runs in the deliver state, i.e. at the position of the gov EndBlocker.
func (s *Sim) Gov(o *Op) string {
	space := o.str("space")
	key := o.str("key")
	full := space
	if space != "swap" {
		full = "vpn/" + space
	}
	ss, ok := s.App.ParamsKeeper.GetSubspace(full)
	if !ok {
		return "reject:gov:nosubspace"
	}
	var val interface{}
	switch {
	case o.has("coins"):
		val = ParseCoins(o.str("coins"))
	case o.has("coin"):
		val = ParseCoin(o.str("coin"))
	case o.has("dur"):
		val = time.Duration(o.i64("dur"))
	case o.has("int"):
		val = o.i64("int")
	case o.has("dec"):
		val = o.dec("dec")
	case o.has("bool"):
		val = o.str("bool") == "1"
	case o.has("str"):
		val = o.text("str")
	case o.has("addr"):
		val = o.addrText("addr", "acc")
	default:
		return "reject:gov:novalue"
	}
	bz, err := s.App.LegacyAmino().MarshalJSON(val)
	if err != nil {
		return "reject:gov:marshal:" + firstWords(err.Error())
	}
	ctx := s.Ctx()
	res := "accept"
	func() {
		defer func() {
			if r := recover(); r != nil {
				res = "reject:gov:panic:" + firstWords(fmt.Sprint(r))
			}
		}()
		if err := ss.Update(ctx, []byte(key), bz); err != nil {
			res = "reject:gov:" + firstWords(err.Error())
		}
	}()
	return res
}

// CanonEvents renders the hub's typed events canonically: type, then attributes sorted by key;
// bech32 addresses are replaced by role:hex.
func CanonEvents(evs []abci.Event) []string {
	var out []string
	for _, e := range evs {
		if !strings.HasPrefix(e.Type, "sentinel.") {
			continue
		}
		var attrs []string
		for _, a := range e.Attributes {
			v := a.Value
			if len(v) >= 2 && v[0] == '"' && v[len(v)-1] == '"' {
				v = v[1 : len(v)-1]
			}
			if a.Key == "tx_hash" {
				if b, err := base64.StdEncoding.DecodeString(v); err == nil {
					v = hx(b)
				}
			}
			attrs = append(attrs, a.Key+"="+canonText(v))
		}
		sort.Strings(attrs)
		out = append(out, "E "+e.Type+" "+strings.Join(attrs, " "))
	}
	return out
}

func canonText(v string) string {
	if v == "" {
		return "-"
	}
	if hrp, b, err := bech32.DecodeAndConvert(v); err == nil {
		for role, p := range rolePrefix {
			if p == hrp {
				return role + ":" + hex.EncodeToString(b)
			}
		}
	}
	return strings.ReplaceAll(v, " ", "_")
}
