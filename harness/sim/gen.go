package sim

import (
	"encoding/hex"
	"fmt"
	"math/rand"
	"sort"
	"strings"
	"time"

	sdkmath "cosmossdk.io/math"
	sdk "github.com/cosmos/cosmos-sdk/types"

	hubtypes "github.com/sentinel-official/hub/v12/types"
	subscriptiontypes "github.com/sentinel-official/hub/v12/x/subscription/types"
)

// Gen generates a history adaptively: it looks at the real application's state to aim operations
// at existing records and at boundary values, executes every operation on the real application as
// it goes, and records the operation lines (for the model) and the implementation's answers.
// Every random choice comes from one PRNG.
type Gen struct {
	R       *rand.Rand
	Run     *Runner
	Ops     []string
	Profile string
	actors  [][]byte
	keyIdx  map[string]int
	denoms  []string
	whales  map[string][][]byte // extreme profile: denom -> accounts holding 2^253..2^254 of it
	Stats   map[string]int
	inMut   bool
}

var urls = []string{"https://n.example:8080", "https://10.0.0.1:443", "https://a.b:1", "http://n.example:80", "https://noport.example", "",
	"https://" + strings.Repeat("x", 60) + ":1", "not a url", "https://[::1]:9"}
var webs = []string{"", "https://sentinel.co", "/relative", "no scheme", "https://" + strings.Repeat("w", 70)}

func hexs(b []byte) string {
	if len(b) == 0 {
		return "-"
	}
	return hex.EncodeToString(b)
}

func NewGen(seed int64, profile string, w *Runner) *Gen {
	g := &Gen{R: rand.New(rand.NewSource(seed)), Run: w, Profile: profile, keyIdx: map[string]int{}, Stats: map[string]int{}}
	return g
}

func (g *Gen) line(format string, a ...interface{}) error {
	l := fmt.Sprintf(format, a...)
	g.Ops = append(g.Ops, l)
	if err := g.Run.Exec(l); err != nil {
		return err
	}
	if g.Profile == "validate" && !g.inMut && strings.HasPrefix(l, "tx ") {
		// single-field boundary variants of the transaction just executed (mutate.go)
		g.inMut = true
		defer func() { g.inMut = false }()
		for _, m := range g.mutateTx(l, 1+g.pick(3)) {
			g.Ops = append(g.Ops, m)
			g.Stats["mut"]++
			if err := g.Run.Exec(m); err != nil {
				return err
			}
		}
	}
	return nil
}

// Inspect emits the `inspect` operation (run.go).
func (g *Gen) Inspect() error {
	g.inMut = true
	defer func() { g.inMut = false }()
	return g.line("inspect")
}

func (g *Gen) pick(n int) int { return g.R.Intn(n) }
func (g *Gen) chance(p float64) bool { return g.R.Float64() < p }

func (g *Gen) coinsStr(denoms []string, lo, hi int64) string {
	var parts []string
	for _, d := range denoms {
		parts = append(parts, fmt.Sprintf("%s:%d", d, lo+g.R.Int63n(hi-lo+1)))
	}
	if len(parts) == 0 {
		return "-"
	}
	return strings.Join(parts, ",")
}

// subset returns a sorted subset of the quoted denominations.
func (g *Gen) subset(min int) []string {
	quoted := g.denoms[:len(g.denoms)-1] // the last denomination is never quoted
	var out []string
	for _, d := range quoted {
		if g.chance(0.7) {
			out = append(out, d)
		}
	}
	if len(out) < min {
		out = []string{quoted[g.pick(len(quoted))]}
	}
	sort.Strings(out)
	return out
}

func dec18(f float64) string { return fmt.Sprintf("%d", int64(f*1e18)) }

func (g *Gen) activeDur() int64 {
	if g.Profile == "sessions" {
		return []int64{86400e9, 7 * 86400e9, 30 * 86400e9}[g.pick(3)]
	}
	return []int64{6 * 3600e9, 86400e9, 7 * 86400e9, 86400e9, 6 * 3600e9, 7 * 86400e9, 86400e9, 30e9, 3600e9, 1}[g.pick(10)]
}

// Setup writes the genesis lines.
func (g *Gen) Setup() error {
	t0 := int64(1700000000) * 1e9
	g.denoms = []string{"ibc/27394fb092d2eccd56123c74f36e4c1f926001ceada9ca97ea622b25f41e5eb2", "udvpn", "unq"}
	sort.Strings(g.denoms)
	// move "unq" last (never quoted)
	var ds []string
	for _, d := range g.denoms {
		if d != "unq" {
			ds = append(ds, d)
		}
	}
	g.denoms = append(ds, "unq")

	// actors: assorted lengths, pairs in prefix relation, two keyed accounts
	mk := func(n int, fill byte) []byte {
		b := make([]byte, n)
		for i := range b {
			b[i] = fill
		}
		return b
	}
	g.actors = [][]byte{mk(1, 0x03), {0x03, 0x03}, mk(19, 0x11), mk(20, 0x22), mk(21, 0x22), mk(32, 0x44), mk(255, 0x55), {0x01}, mk(20, 0x66)}
	nKeys := 2
	if g.Profile == "keyed" {
		// every actor is a 20-byte secp256k1 account whose key the harness holds (registered with `key` lines): each
		// transaction of the history can be signed, so the whole history can be replayed in tx mode (txmode.go).
		// Otherwise the profile is `lifecycle`: all message kinds, wrong senders from the same pool, invalid values.
		g.actors = nil
		nKeys = 11
	}
	for i := 1; i <= nKeys; i++ {
		a := sdk.AccAddress(KeyFor(i).PubKey().Address())
		g.actors = append(g.actors, a)
		g.keyIdx[string(a)] = i
	}
	approver := g.actors[g.pick(len(g.actors))]

	sessDelay := []int64{1, 30e9, 60e9, 3600e9}[g.pick(4)]
	if g.Profile == "sessions" {
		sessDelay = []int64{1, 5e9, 30e9}[g.pick(3)]
	}
	subDelay := sessDelay + []int64{0, 1, 60e9, 7200e9}[g.pick(4)]
	// half of the choices make share x price land on exactly .5 for common prices (half-even rounding of
	// the fee, and of anything rounded independently of it)
	shares := []string{"0", dec18(0.1), dec18(0.25), "333333333333333333", "1000000000000000000", "1", dec18(0.5), dec18(0.5), dec18(0.1), dec18(0.25), dec18(0.05), "500000000000000001"}
	minGB, maxGB := g.coinsStr(g.subset(0), 1, 5), ""
	_ = maxGB
	bound := func() (string, string) {
		ds := g.subset(0)
		if g.chance(0.2) || (g.Profile == "extreme" && g.chance(0.6)) {
			return "-", "-"
		}
		var mins, maxs []string
		for _, d := range ds {
			lo := 1 + g.R.Int63n(5)
			hi := lo + g.R.Int63n(1000)
			if g.chance(0.5) {
				mins = append(mins, fmt.Sprintf("%s:%d", d, lo))
			}
			if g.chance(0.7) {
				maxs = append(maxs, fmt.Sprintf("%s:%d", d, hi))
			}
		}
		j := func(x []string) string {
			if len(x) == 0 {
				return "-"
			}
			return strings.Join(x, ",")
		}
		return j(mins), j(maxs)
	}
	minGB, maxGBs := bound()
	minHr, maxHrs := bound()
	minSubGB := 1 + g.R.Int63n(3)
	maxSubGB := minSubGB + g.R.Int63n(20)
	if g.Profile == "extreme" && g.chance(0.5) {
		// purchases whose byte count (gigabytes x 10^9) leaves the machine-word range
		maxSubGB = []int64{9223372036, 9223372037, 18446744074, 9223372036854775807}[g.pick(4)]
	}
	minSubHr := 1 + g.R.Int63n(3)
	maxSubHr := minSubHr + g.R.Int63n(10)
	dep := func() string {
		if g.chance(0.3) {
			return g.denoms[g.pick(2)] + ":0"
		}
		return fmt.Sprintf("%s:%d", g.denoms[g.pick(2)], 1+g.R.Int63n(2000))
	}
	if err := g.line("init t=%d provDeposit=%s provShare=%s nodeDeposit=%s activeDur=%d maxGB=%s minGB=%s maxHr=%s minHr=%s maxSubGB=%d minSubGB=%d maxSubHr=%d minSubHr=%d nodeShare=%s subDelay=%d sessDelay=%d proof=%d swapOn=%d swapDenom=%s approveBy=%s",
		t0, dep(), shares[g.pick(len(shares))], dep(), g.activeDur(), maxGBs, minGB, maxHrs, minHr,
		maxSubGB, minSubGB, maxSubHr, minSubHr, shares[g.pick(len(shares))], subDelay, sessDelay, g.pick(4)/3, 1-g.pick(5)/4, g.denoms[g.pick(2)], hexs(approver)); err != nil {
		return err
	}
	huge := map[string]int{}
	for _, a := range g.actors {
		for _, d := range g.denoms {
			amt := []string{"0", "5", "1000", "1000000000", "1000000000000000000", "100000000000000000000000000000"}[g.pick(6)]
			if g.chance(0.6) {
				amt = "1000000000000"
			}
			// extreme: up to two whales per denomination (2^254 and 2^253: total supply stays below 2^256)
			if g.Profile == "extreme" && huge[d] < 2 && g.chance(0.3) {
				amt = []string{"28948022309329048855892746252171976963317496166410141009864396001978282409984", "14474011154664524427946373126085988481658748083205070504932198000989141204992"}[huge[d]]
				huge[d]++
				if g.whales == nil {
					g.whales = map[string][][]byte{}
				}
				g.whales[d] = append(g.whales[d], a)
			}
			if err := g.line("bal addr=%s denom=%s amt=%s", hexs(a), d, amt); err != nil {
				return err
			}
		}
	}
	for i := 1; i <= nKeys; i++ { // in index order (the map's order is not fixed)
		if err := g.line("key idx=%d addr=%s", i, hexs(sdk.AccAddress(KeyFor(i).PubKey().Address()))); err != nil {
			return err
		}
	}
	n := g.pick(4)
	for i := 0; i < n; i++ {
		ts := t0 + g.R.Int63n(int64(40*3600e9))
		mn := g.R.Int63n(5e17)
		mx := mn + g.R.Int63n(5e17)
		if err := g.line("infl ts=%d max=%d min=%d rate=%d", ts, mx, mn, g.R.Int63n(1e18)); err != nil {
			return err
		}
	}
	return g.line("start")
}

type view struct {
	nodes     []nodeV
	provs     [][]byte
	plans     []planV
	subs      []subV
	sess      []sessV
	deadlines []int64
	sessDl    []int64
}
type nodeV struct {
	addr   []byte
	active bool
	gb, hr sdk.Coins
}
type planV struct {
	id     uint64
	prov   []byte
	active bool
	prices sdk.Coins
}
type subV struct {
	id     uint64
	addr   []byte
	node   []byte
	plan   uint64
	status hubtypes.Status
	hours  int64
	paidUp bool // hourly subscription whose payout has no hour left (all payouts made) but which is still stored
	allocs []allocV
}
type allocV struct {
	addr          []byte
	granted, used sdkmath.Int
}
type sessV struct {
	id     uint64
	sub    uint64
	addr   []byte
	node   []byte
	status hubtypes.Status
}

func ns(t time.Time) (int64, bool) {
	if t.IsZero() || t.Year() < 1971 || t.Year() > 2200 {
		return 0, false
	}
	return t.UnixNano(), true
}

func (g *Gen) view() *view {
	s := g.Run.Sim
	ctx := s.QueryCtx()
	k := s.App.VPNKeeper
	v := &view{}
	add := func(t time.Time) {
		if n, ok := ns(t); ok {
			v.deadlines = append(v.deadlines, n)
		}
	}
	for _, n := range k.Node.GetNodes(ctx) {
		v.nodes = append(v.nodes, nodeV{n.GetAddress(), n.Status == hubtypes.StatusActive, n.GigabytePrices, n.HourlyPrices})
		add(n.InactiveAt)
	}
	for _, p := range k.Provider.GetProviders(ctx) {
		v.provs = append(v.provs, p.GetAddress())
	}
	for _, p := range k.Plan.GetPlans(ctx) {
		v.plans = append(v.plans, planV{p.ID, p.GetProviderAddress(), p.Status == hubtypes.StatusActive, p.Prices})
	}
	for _, x := range k.Subscription.GetSubscriptions(ctx) {
		sv := subV{id: x.GetID(), addr: x.GetAddress(), status: x.GetStatus()}
		switch y := x.(type) {
		case *subscriptiontypes.NodeSubscription:
			sv.node = y.GetNodeAddress()
			sv.hours = y.Hours
		case *subscriptiontypes.PlanSubscription:
			sv.plan = y.PlanID
		}
		for _, a := range k.Subscription.GetAllocationsForSubscription(ctx, x.GetID()) {
			sv.allocs = append(sv.allocs, allocV{a.GetAddress(), a.GrantedBytes, a.UtilisedBytes})
		}
		v.subs = append(v.subs, sv)
		add(x.GetInactiveAt())
	}
	for _, p := range k.Subscription.GetPayouts(ctx) {
		add(p.NextAt)
		if p.Hours == 0 {
			for i := range v.subs {
				if v.subs[i].id == p.ID {
					v.subs[i].paidUp = true
				}
			}
		}
	}
	for _, x := range k.Session.GetSessions(ctx) {
		v.sess = append(v.sess, sessV{x.ID, x.SubscriptionID, x.GetAddress(), x.GetNodeAddress(), x.Status})
		add(x.InactiveAt)
		if n, ok := ns(x.InactiveAt); ok {
			v.sessDl = append(v.sessDl, n)
		}
	}
	for _, in := range s.App.CustomMintKeeper.GetInflations(ctx) {
		add(in.Timestamp)
	}
	return v
}

func (g *Gen) actor() []byte { return g.actors[g.pick(len(g.actors))] }

// buyer is an actor; in the sessions profile mostly one whose key the harness holds, so that
// bandwidth reports can carry a valid signature when proof verification is on.
func (g *Gen) buyer() []byte {
	if g.Profile == "sessions" && g.chance(0.6) {
		return g.actors[len(g.actors)-1-g.pick(2)]
	}
	return g.actor()
}

// who returns the right sender most of the time, otherwise any other actor.
func (g *Gen) who(owner []byte) []byte {
	if owner != nil && !g.chance(g.pWrong()) {
		return owner
	}
	return g.actor()
}

// whoRel is `who`, but a wrong sender is, half of the time, one of the parties related to the resource
// (a holder of an allocation, the serving node, the plan's provider ...): the near-owners an authorisation
// slip is most likely to let through.
func (g *Gen) whoRel(owner []byte, related ...[]byte) []byte {
	var rel [][]byte
	for _, r := range related {
		if len(r) > 0 && string(r) != string(owner) {
			rel = append(rel, r)
		}
	}
	if owner != nil && len(rel) > 0 && g.chance(0.25+g.pWrong()/2) {
		return rel[g.pick(len(rel))]
	}
	return g.who(owner)
}

func (g *Gen) pWrong() float64 {
	if g.Profile == "authz" {
		return 0.5
	}
	return 0.08
}

// addrExtra occasionally confuses the role of an address field or corrupts its checksum.
func (g *Gen) addrExtra(field string) string {
	if g.chance(0.02) {
		return fmt.Sprintf(" %srole=%s", field, []string{"acc", "node", "prov"}[g.pick(3)])
	}
	if g.chance(0.01) {
		return fmt.Sprintf(" %sbad=1", field)
	}
	return ""
}

func (g *Gen) someID(max uint64) uint64 {
	switch {
	case g.chance(0.03):
		return 0
	case g.chance(0.03):
		return max + 1 + uint64(g.pick(3))
	case g.chance(0.01):
		return ^uint64(0)
	case max == 0:
		return 1
	case max >= 1<<62:
		return max - uint64(g.pick(4))
	}
	return 1 + uint64(g.R.Int63n(int64(max)))
}

func (g *Gen) bigInt() string {
	c := []string{"0", "1", "999999999", "1000000000", "1000000001", "9223372036854775807", "340282366920938463463374607431768211456",
		"1809251394333065553493296640760748560207343510400633813116524750123642650624",  // 2^250 (a whale of the extreme profile can pay it)
		"14474011154664524427946373126085988481658748083205070504932198000989141204992", // 2^253
		"57896044618658097711785492504343953926634992332820282019728792003956564819968", // 2^255
		"115792089237316195423570985008687907853269984665640564039457584007913129639935"} // 2^256-1
	return c[g.pick(len(c))]
}

func (g *Gen) bytesAmount() string {
	if g.Profile == "extreme" && g.chance(0.5) {
		return g.bigInt()
	}
	if g.chance(0.02) {
		return []string{"-1", "-1000000000", "-115792089237316195423570985008687907853269984665640564039457584007913129639935"}[g.pick(3)]
	}
	switch g.pick(6) {
	case 0:
		return "0"
	case 1:
		return fmt.Sprint(g.R.Int63n(2e9))
	case 2:
		return fmt.Sprint(g.R.Int63n(3e10))
	case 3:
		return "1000000000"
	case 4:
		return g.bigInt()
	}
	return fmt.Sprint(g.R.Int63n(1e9))
}

// boundedPrices quotes some denominations inside the current governance bounds (every denomination
// with a minimum bound must be quoted).
func (g *Gen) boundedPrices(maxP, minP sdk.Coins) string {
	want := map[string]bool{}
	for _, d := range g.subset(1) {
		want[d] = true
	}
	for _, c := range minP {
		want[c.Denom] = true
	}
	var ds []string
	for d := range want {
		ds = append(ds, d)
	}
	sort.Strings(ds)
	var parts []string
	for _, d := range ds {
		lo := minP.AmountOf(d)
		if !lo.IsPositive() {
			lo = sdkmath.OneInt()
		}
		hi := maxP.AmountOf(d)
		if !hi.IsPositive() {
			hi = lo.AddRaw(50)
		}
		amt := lo
		if hi.GT(lo) {
			span := hi.Sub(lo)
			if span.IsInt64() {
				amt = lo.AddRaw(g.R.Int63n(span.Int64() + 1))
			} else {
				amt = hi
			}
		}
		if g.chance(0.1) {
			amt = hi
		}
		if g.chance(0.05) {
			amt = hi.AddRaw(1)
		}
		if g.chance(0.03) && lo.GT(sdkmath.OneInt()) {
			amt = lo.SubRaw(1)
		}
		parts = append(parts, d+":"+amt.String())
	}
	return strings.Join(parts, ",")
}

func (g *Gen) priceCoins(v *view) string {
	if g.chance(0.03) {
		return []string{"-", "udvpn:0", "udvpn:5,udvpn:6", "udvpn:5,ibc/27394fb092d2eccd56123c74f36e4c1f926001ceada9ca97ea622b25f41e5eb2:5", "x:1"}[g.pick(5)]
	}
	hi := int64(50)
	if g.chance(0.3) {
		hi = 2000
	}
	if g.Profile == "extreme" && g.chance(0.6) {
		ds := g.subset(1)
		var parts []string
		for _, d := range ds {
			amt := g.bigInt()
			if g.chance(0.5) {
				// prices a whale can pay, with ragged low digits (partial-unit rounding)
				amt = []string{"1809251394333065553493296640760748560207343510400633813116524750123642650624", "14474011154664524427946373126085988481658748083205070504932198000989141204992",
					"3618502788666131106986593281521497120414687020801267626233049500247285301247", "340282366920938463463374607431768211457"}[g.pick(4)]
			}
			parts = append(parts, d+":"+amt)
		}
		return strings.Join(parts, ",")
	}
	return g.coinsStr(g.subset(1), 1, hi)
}

// Tx emits one transaction.
func (g *Gen) Tx(v *view) error {
	kinds := []string{"provRegister", "provUpdate", "nodeRegister", "nodeUpdate", "nodeStatus", "nodeSubscribe", "planCreate", "planStatus",
		"planLink", "planUnlink", "planSubscribe", "subCancel", "subAllocate", "sessStart", "sessUpdate", "sessEnd", "swap"}
	weights := []int{3, 2, 4, 3, 6, 10, 4, 5, 5, 2, 8, 4, 8, 12, 12, 6, 3}
	switch g.Profile {
	case "quota":
		weights = []int{2, 0, 3, 1, 4, 4, 3, 4, 4, 1, 10, 2, 25, 12, 12, 6, 0}
	case "money":
		weights = []int{3, 1, 4, 2, 5, 16, 3, 4, 4, 1, 10, 6, 3, 12, 14, 8, 4}
	case "genesis":
		// the tables that survive a round trip: providers, nodes, plans (both partitions), links, sessions
		weights = []int{4, 3, 5, 3, 8, 6, 9, 10, 6, 2, 5, 2, 3, 8, 8, 4, 3}
	case "sessions":
		// several settled sessions per subscription, byte counts sized against the quota
		weights = []int{1, 0, 2, 1, 3, 8, 2, 3, 4, 0, 8, 1, 9, 22, 26, 14, 0}
	}
	// state-directed pressure: build up what later operations need, and do not waste operations
	// on tables that are still empty (they stay reachable with a small weight).
	activeNodes, inactiveNodes, activePlans, inactivePlans, liveSubs, activeSess := 0, 0, 0, 0, 0, 0
	for _, n := range v.nodes {
		if n.active {
			activeNodes++
		} else {
			inactiveNodes++
		}
	}
	for _, p := range v.plans {
		if p.active {
			activePlans++
		} else {
			inactivePlans++
		}
	}
	for _, x := range v.subs {
		if x.status == hubtypes.StatusActive {
			liveSubs++
		}
	}
	for _, x := range v.sess {
		if x.status == hubtypes.StatusActive {
			activeSess++
		}
	}
	if len(v.provs) < 2 {
		weights[0] += 12
	}
	if len(v.nodes) < 3 {
		weights[2] += 14
	}
	if activeNodes < 2 && inactiveNodes > 0 {
		weights[4] += 14
	}
	if g.Profile == "sessions" && inactiveNodes > 0 {
		weights[4] += 10
	}
	if len(v.provs) > 0 && len(v.plans) < 2 {
		weights[6] += 10
	}
	if activePlans < 1 && inactivePlans > 0 {
		weights[7] += 10
	}
	if len(v.plans) > 0 && len(v.nodes) > 0 {
		weights[8] += 3
	}
	if activeNodes == 0 {
		weights[5] = 1
	}
	if activePlans == 0 {
		weights[10] = 1
	}
	if len(v.plans) == 0 {
		weights[7], weights[8], weights[9] = 1, 1, 1
	}
	if len(v.subs) == 0 {
		weights[11], weights[12], weights[13] = 1, 1, 1
	}
	if liveSubs == 0 {
		weights[13] = 1
	}
	if len(v.sess) == 0 {
		weights[14], weights[15] = 1, 1
	}
	for _, x := range v.subs {
		if x.paidUp && x.status == hubtypes.StatusActive {
			weights[11] += 4
			break
		}
	}
	for _, x := range v.subs {
		if len(x.allocs) > 1 {
			weights[11] += 3 // a shared subscription: cancellations by its holders are the interesting ones
			break
		}
	}
	if activeSess == 0 && len(v.sess) > 0 {
		weights[15] = 2
	}
	total := 0
	for _, w := range weights {
		total += w
	}
	x := g.pick(total)
	kind := ""
	for i, w := range weights {
		if x < w {
			kind = kinds[i]
			break
		}
		x -= w
	}
	g.Stats["tx:"+kind]++
	s := g.Run.Sim
	ctx := s.QueryCtx()
	k := s.App.VPNKeeper
	planMax := k.Plan.GetCount(ctx)
	subMax := k.Subscription.GetCount(ctx)
	sessMax := k.Session.GetCount(ctx)
	anyNode := func() []byte {
		if len(v.nodes) > 0 && !g.chance(0.05) {
			return v.nodes[g.pick(len(v.nodes))].addr
		}
		return g.actor()
	}
	txt := func(max int) string {
		n := g.pick(max + 1)
		if g.chance(0.03) {
			n = max + 1 + g.pick(3)
		}
		return hexs([]byte(strings.Repeat("n", n)))
	}
	switch kind {
	case "provRegister":
		web := webs[g.pick(len(webs))]
		return g.line("tx provRegister from=%s name=%s identity=%s website=%s desc=%s webok=%s%s", hexs(g.actor()), txt(64), txt(64), hexs([]byte(web)), txt(256), b01(WebOK(web)), g.addrExtra("from"))
	case "provUpdate":
		var owner []byte
		if len(v.provs) > 0 {
			owner = v.provs[g.pick(len(v.provs))]
		}
		web := webs[g.pick(len(webs))]
		st := []int{0, 1, 3, 3, 1, 2, 7}[g.pick(7)]
		return g.line("tx provUpdate from=%s name=%s identity=%s website=%s desc=%s status=%d webok=%s%s", hexs(g.who(owner)), txt(64), txt(64), hexs([]byte(web)), txt(256), st, b01(WebOK(web)), g.addrExtra("from"))
	case "nodeRegister":
		u := urls[g.pick(len(urls))]
		if g.chance(0.7) {
			u = urls[g.pick(3)]
		}
		gbP, hrP := g.priceCoins(v), g.priceCoins(v)
		if g.chance(0.85) && !(g.Profile == "extreme" && g.chance(0.5)) {
			np := s.App.VPNKeeper.Node.GetParams(ctx)
			gbP, hrP = g.boundedPrices(np.MaxGigabytePrices, np.MinGigabytePrices), g.boundedPrices(np.MaxHourlyPrices, np.MinHourlyPrices)
		}
		return g.line("tx nodeRegister from=%s gb=%s hr=%s url=%s urlok=%s%s", hexs(g.actor()), gbP, hrP, hexs([]byte(u)), b01(URLOK(u)), g.addrExtra("from"))
	case "nodeUpdate":
		u := urls[g.pick(len(urls))]
		gb, hr := "nil", "nil"
		npu := s.App.VPNKeeper.Node.GetParams(ctx)
		if g.chance(0.6) {
			gb = g.boundedPrices(npu.MaxGigabytePrices, npu.MinGigabytePrices)
			if g.chance(0.15) {
				gb = g.priceCoins(v)
			}
		}
		if g.chance(0.6) {
			hr = g.boundedPrices(npu.MaxHourlyPrices, npu.MinHourlyPrices)
			if g.chance(0.15) {
				hr = g.priceCoins(v)
			}
		}
		if g.chance(0.6) {
			u = ""
		}
		return g.line("tx nodeUpdate from=%s gb=%s hr=%s url=%s urlok=%s%s", hexs(g.who(anyNode())), gb, hr, hexs([]byte(u)), b01(URLOK(u)), g.addrExtra("from"))
	case "nodeStatus":
		st := []int{1, 1, 1, 1, 3, 3, 1, 3, 1, 1, 3, 1, 0, 2}[g.pick(14)]
		target := anyNode()
		if g.Profile == "sessions" && g.chance(0.85) {
			st = 1
			for _, n := range v.nodes {
				if !n.active {
					target = n.addr
				}
			}
		}
		return g.line("tx nodeStatus from=%s status=%d%s", hexs(g.who(target)), st, g.addrExtra("from"))
	case "nodeSubscribe":
		gb, hr := int64(0), int64(0)
		np := s.App.VPNKeeper.Node.GetParams(ctx)
		if g.chance(0.5) {
			gb = np.MinSubscriptionGigabytes + g.R.Int63n(np.MaxSubscriptionGigabytes-np.MinSubscriptionGigabytes+1)
			if np.MaxSubscriptionGigabytes > 1000000 {
				gb = np.MinSubscriptionGigabytes + g.R.Int63n(20)
				if g.chance(0.5) {
					gb = min64(np.MaxSubscriptionGigabytes, []int64{9223372036, 9223372037, 18446744073, 18446744074, 9223372036854775807}[g.pick(5)])
				}
			}
			if g.chance(0.1) {
				gb = []int64{0, np.MinSubscriptionGigabytes - 1, np.MaxSubscriptionGigabytes + 1, -1, np.MaxSubscriptionGigabytes}[g.pick(5)]
			}
		} else {
			hr = np.MinSubscriptionHours + g.R.Int63n(np.MaxSubscriptionHours-np.MinSubscriptionHours+1)
			if g.chance(0.1) {
				hr = []int64{0, np.MinSubscriptionHours - 1, np.MaxSubscriptionHours + 1, -1, np.MaxSubscriptionHours}[g.pick(5)]
			}
		}
		if g.chance(0.02) {
			gb, hr = 1, 1
		}
		d := g.denoms[g.pick(len(g.denoms))]
		target := anyNode()
		var act []nodeV
		for _, n := range v.nodes {
			if n.active {
				act = append(act, n)
			}
		}
		if len(act) > 0 && g.chance(0.9) {
			n := act[g.pick(len(act))]
			target = n.addr
			quoted := n.gb
			if hr != 0 {
				quoted = n.hr
			}
			if len(quoted) > 0 && g.chance(0.92) {
				d = quoted[g.pick(len(quoted))].Denom
			}
		}
		if g.chance(0.02) {
			d = []string{"", "x", "1bad"}[g.pick(3)]
		}
		// a plan's provider leasing a node by the hour is what lets plan subscribers use that node
		buyer := g.buyer()
		if g.Profile == "sessions" && hr != 0 && g.chance(0.7) {
			gb, hr = np.MinSubscriptionGigabytes+g.R.Int63n(min64(3, np.MaxSubscriptionGigabytes-np.MinSubscriptionGigabytes+1)), 0
		}
		if hr != 0 && len(v.plans) > 0 && g.chance(0.5) {
			buyer = v.plans[g.pick(len(v.plans))].prov
		}
		if g.Profile == "extreme" && len(g.whales[d]) > 0 && g.chance(0.5) {
			buyer = g.whales[d][g.pick(len(g.whales[d]))]
		}
		denomField := "denom=" + d
		return g.line("tx nodeSubscribe from=%s node=%s gb=%d hr=%d %s%s%s", hexs(buyer), hexs(target), gb, hr, denomField, g.addrExtra("from"), g.addrExtra("node"))
	case "planCreate":
		var owner []byte
		if len(v.provs) > 0 {
			owner = v.provs[g.pick(len(v.provs))]
		}
		dur := []int64{1, 60e9, 3600e9, 86400e9, 30 * 86400e9, 0, -5}[g.pick(7)]
		if g.chance(0.7) {
			dur = []int64{3600e9, 7200e9, 86400e9}[g.pick(3)]
		}
		gb := []int64{1, 2, 10, 100, 0, -1, 9223372036, 9223372037, 18446744074, 9223372036854775807}[g.pick(10)]
		if g.chance(0.7) {
			gb = 1 + g.R.Int63n(20)
		}
		return g.line("tx planCreate from=%s dur=%d gb=%d prices=%s%s", hexs(g.who(owner)), dur, gb, g.priceCoins(v), g.addrExtra("from"))
	case "planStatus", "planLink", "planUnlink":
		id := g.someID(planMax)
		if len(v.plans) > 0 && g.chance(0.9) {
			id = v.plans[g.pick(len(v.plans))].id
		}
		var owner []byte
		for _, p := range v.plans {
			if p.id == id {
				owner = p.prov
			}
		}
		if kind == "planStatus" {
			st := []int{1, 1, 1, 1, 3, 3, 1, 3, 1, 1, 3, 1, 0, 2}[g.pick(14)]
			return g.line("tx planStatus from=%s id=%d status=%d%s", hexs(g.who(owner)), id, st, g.addrExtra("from"))
		}
		return g.line("tx %s from=%s id=%d node=%s%s%s", kind, hexs(g.who(owner)), id, hexs(anyNode()), g.addrExtra("from"), g.addrExtra("node"))
	case "planSubscribe":
		pid := g.someID(planMax)
		pd := g.denoms[g.pick(len(g.denoms))]
		var ap []planV
		for _, p := range v.plans {
			if p.active {
				ap = append(ap, p)
			}
		}
		if len(ap) > 0 && g.chance(0.9) {
			p := ap[g.pick(len(ap))]
			pid = p.id
			if len(p.prices) > 0 && g.chance(0.9) {
				pd = p.prices[g.pick(len(p.prices))].Denom
			}
		}
		return g.line("tx planSubscribe from=%s id=%d denom=%s%s", hexs(g.buyer()), pid, pd, g.addrExtra("from"))
	case "subCancel":
		id := g.someID(subMax)
		if len(v.subs) > 0 && g.chance(0.9) {
			id = v.subs[g.pick(len(v.subs))].id
			// a lease in its last hour (every payout made, not yet expired) is a rare state worth cancelling
			for _, x := range v.subs {
				if x.paidUp && x.status == hubtypes.StatusActive && g.chance(0.4) {
					id = x.id
				}
			}
		}
		var owner []byte
		var related [][]byte
		for _, x := range v.subs {
			if x.id == id {
				owner = x.addr
				related = append(related, x.node)
				for _, al := range x.allocs {
					related = append(related, al.addr)
				}
				for _, p := range v.plans {
					if p.id == x.plan {
						related = append(related, p.prov)
					}
				}
			}
		}
		return g.line("tx subCancel from=%s id=%d%s", hexs(g.whoRel(owner, related...)), id, g.addrExtra("from"))
	case "subAllocate":
		id := g.someID(subMax)
		var planSubs []subV
		for _, x := range v.subs {
			if x.plan != 0 {
				planSubs = append(planSubs, x)
			}
		}
		if len(planSubs) > 0 && g.chance(0.85) {
			id = planSubs[g.pick(len(planSubs))].id
		}
		var owner []byte
		bytes := g.bytesAmount()
		to := g.buyer()
		for _, x := range v.subs {
			if x.id == id {
				owner = x.addr
				if len(x.allocs) > 1 && g.chance(0.5) {
					to = x.allocs[g.pick(len(x.allocs))].addr
				}
				// boundary values derived from the state: available = granted - used of (from,to)
				var fa, ta *allocV
				for i := range x.allocs {
					if string(x.allocs[i].addr) == string(owner) {
						fa = &x.allocs[i]
					}
					if string(x.allocs[i].addr) == string(to) {
						ta = &x.allocs[i]
					}
				}
				if fa != nil && g.chance(0.6) {
					avail := fa.granted.Sub(fa.used)
					if ta != nil {
						avail = avail.Add(ta.granted).Sub(ta.used)
					}
					switch g.pick(7) {
					case 5:
						if ta != nil && ta.used.IsPositive() {
							bytes = ta.used.SubRaw(1).String() // re-share below what the recipient already used
						}
					case 6:
						if ta != nil {
							bytes = ta.used.String()
						}
					case 0:
						bytes = avail.String()
					case 1:
						bytes = avail.AddRaw(1).String()
					case 2:
						if avail.IsPositive() {
							bytes = avail.SubRaw(1).String()
						}
					case 3:
						bytes = avail.QuoRaw(2).String()
					case 4:
						bytes = fa.granted.String()
					}
				}
			}
		}
		var holders [][]byte
		for _, x := range v.subs {
			if x.id == id {
				for _, al := range x.allocs {
					holders = append(holders, al.addr)
				}
			}
		}
		return g.line("tx subAllocate from=%s id=%d to=%s bytes=%s%s%s", hexs(g.whoRel(owner, holders...)), id, hexs(to), bytes, g.addrExtra("from"), g.addrExtra("to"))
	case "sessStart":
		id := g.someID(subMax)
		var live []subV
		for _, x := range v.subs {
			if x.status == hubtypes.StatusActive {
				live = append(live, x)
			}
		}
		if len(live) > 0 && g.chance(0.85) {
			id = live[g.pick(len(live))].id
		}
		if g.Profile == "sessions" && g.chance(0.85) {
			// subscriptions that can actually be used now: their node is active
			isActive := func(a []byte) bool {
				for _, n := range v.nodes {
					if string(n.addr) == string(a) {
						return n.active
					}
				}
				return false
			}
			var usable []subV
			for _, x := range live {
				if x.node != nil && isActive(x.node) {
					usable = append(usable, x)
				}
				if x.plan != 0 {
					for _, n := range k.Node.GetNodesForPlan(ctx, x.plan) {
						if n.Status == hubtypes.StatusActive {
							usable = append(usable, x)
							break
						}
					}
				}
			}
			if len(usable) > 0 {
				id = usable[g.pick(len(usable))].id
			}
		}
		var from []byte
		node := anyNode()
		for _, x := range v.subs {
			if x.id == id {
				if x.plan != 0 {
					linked := k.Node.GetNodesForPlan(ctx, x.plan)
					if len(linked) > 0 && g.chance(0.9) {
						node = linked[g.pick(len(linked))].GetAddress()
						if g.Profile == "sessions" {
							for _, n := range linked {
								if n.Status == hubtypes.StatusActive && g.chance(0.6) {
									node = n.GetAddress()
								}
							}
						}
					}
				}
				from = x.addr
				if len(x.allocs) > 0 && g.chance(0.5) {
					from = x.allocs[g.pick(len(x.allocs))].addr
				}
				if x.node != nil && !g.chance(0.1) {
					node = x.node
				}
			}
		}
		return g.line("tx sessStart from=%s id=%d node=%s%s%s", hexs(g.who(from)), id, hexs(node), g.addrExtra("from"), g.addrExtra("node"))
	case "sessUpdate":
		id := g.someID(sessMax)
		if len(v.sess) > 0 && g.chance(0.9) {
			id = v.sess[g.pick(len(v.sess))].id
			if a := activeSessIDs(v); len(a) > 0 && g.chance(0.8) {
				id = a[g.pick(len(a))]
			}
		}
		var node, acc []byte
		for _, x := range v.sess {
			if x.id == id {
				node, acc = x.node, x.addr
			}
		}
		sig := "none"
		if idx, ok := g.keyIdx[string(acc)]; ok && g.chance(0.8) {
			sig = fmt.Sprintf("good:%d", idx)
		}
		switch {
		case g.chance(0.05):
			sig = "short"
		case g.chance(0.05):
			sig = "zero"
		case g.chance(0.05):
			sig = fmt.Sprintf("badmsg:%d", 1+g.pick(2))
		case g.chance(0.05):
			sig = fmt.Sprintf("good:%d", 1+g.pick(2))
		}
		dur := []int64{0, 1, 3600e9, 60e9, 1, 2, 3, 4, 5, 6, 7, 8, 9, 10, 11, 12, 13, 14, 15, -1}[g.pick(20)]
		up, down := g.bytesAmount(), g.bytesAmount()
		if g.Profile == "sessions" && g.chance(0.85) {
			// size the report against the quota of the allocation it will be settled on
			for _, x := range v.sess {
				if x.id != id {
					continue
				}
				for _, sb := range v.subs {
					if sb.id != x.sub {
						continue
					}
					for _, al := range sb.allocs {
						if string(al.addr) == string(x.addr) && al.granted.IsPositive() && al.granted.IsInt64() {
							gr := al.granted.Int64()
							tot := []int64{gr / 10, gr / 3, gr / 2, gr*7/10, gr, gr + gr/5, al.granted.Sub(al.used).Int64(), al.granted.Sub(al.used).Int64() + 1, 1 + g.R.Int63n(gr)}[g.pick(9)]
							if tot < 0 {
								tot = 0
							}
							u := int64(0)
							if tot > 0 {
								u = g.R.Int63n(tot + 1)
							}
							up, down = fmt.Sprint(u), fmt.Sprint(tot-u)
						}
					}
				}
			}
		}
		if g.chance(0.12) {
			// a keep-alive: the stored figures re-sent unchanged (it still renews the session's deadline)
			if x, found := k.Session.GetSession(ctx, id); found && !x.Bandwidth.IsAnyNil() {
				up, down, dur = x.Bandwidth.Upload.String(), x.Bandwidth.Download.String(), int64(x.Duration)
			}
		}
		return g.line("tx sessUpdate from=%s id=%d up=%s down=%s dur=%d sig=%s%s", hexs(g.whoRel(node, acc)), id, up, down, dur, sig, g.addrExtra("from"))
	case "sessEnd":
		id := g.someID(sessMax)
		if len(v.sess) > 0 && g.chance(0.9) {
			id = v.sess[g.pick(len(v.sess))].id
			if a := activeSessIDs(v); len(a) > 0 && g.chance(0.8) {
				id = a[g.pick(len(a))]
			}
		}
		var owner []byte
		var related [][]byte
		for _, x := range v.sess {
			if x.id == id {
				owner = x.addr
				related = append(related, x.node)
				for _, sb := range v.subs {
					if sb.id == x.sub {
						related = append(related, sb.addr)
					}
				}
			}
		}
		return g.line("tx sessEnd from=%s id=%d rating=%d%s", hexs(g.whoRel(owner, related...)), id, []int{0, 5, 10, 1, 2, 3, 4, 6, 7, 8, 9, 10, 0, 5, 11}[g.pick(15)], g.addrExtra("from"))
	case "swap":
		wp := s.App.SwapKeeper.GetParams(ctx)
		approver, _ := sdk.AccAddressFromBech32(wp.ApproveBy)
		hash := make([]byte, 32)
		hash[31] = byte(g.pick(6))
		if g.chance(0.3) {
			hash[0] = byte(g.pick(3))
		}
		if g.chance(0.05) {
			hash = hash[:31-g.pick(3)]
		}
		if g.chance(0.03) {
			hash = append(hash, 1)
		}
		amt := []string{"100", "99", "0", "101", "199", "200", "12345678", "115792089237316195423570985008687907853269984665640564039457584007913129639935", "-100", "18446744073709551616", "18446744073709551715"}[g.pick(11)]
		if g.Profile == "genesis" && g.chance(0.9) {
			// a swap below 10000 makes every later export invalid (known finding F4, kept in the corpus):
			// keep most histories of this profile exportable
			amt = []string{"10000", "10001", "12345678", "999999"}[g.pick(4)]
		}
		recv := g.actor()
		if g.chance(0.05) {
			recv = DepositAddr
		}
		return g.line("tx swap from=%s hash=%s recv=%s amt=%s%s%s", hexs(g.who(approver)), hexs(hash), hexs(recv), amt, g.addrExtra("from"), g.addrExtra("recv"))
	}
	return nil
}

// GovOp emits one governance parameter change.
func (g *Gen) GovOp() error {
	g.Stats["gov"]++
	s := g.Run.Sim
	ctx := s.QueryCtx()
	sessD := int64(s.App.VPNKeeper.Session.StatusChangeDelay(ctx))
	subD := int64(s.App.VPNKeeper.Subscription.StatusChangeDelay(ctx))
	np := s.App.VPNKeeper.Node.GetParams(ctx)
	bounds := func() string {
		if g.chance(0.15) {
			return "-"
		}
		if g.chance(0.03) {
			return []string{"udvpn:0", "udvpn:2,udvpn:3", "nil"}[g.pick(3)]
		}
		return g.coinsStr(g.subset(1), 1, 40)
	}
	switch g.pick(14) {
	case 0, 1:
		// keep min <= max per denom (D5): choose min bounds not above the current max bounds
		c := ParseCoins(bounds())
		var parts []string
		for _, x := range c {
			mx := np.MaxGigabytePrices.AmountOf(x.Denom)
			if mx.IsPositive() && x.Amount.GT(mx) {
				x.Amount = mx
			}
			parts = append(parts, x.Denom+":"+x.Amount.String())
		}
		v := "-"
		if len(parts) > 0 {
			v = strings.Join(parts, ",")
		}
		return g.line("gov space=node key=MinGigabytePrices coins=%s", v)
	case 2, 3:
		c := ParseCoins(bounds())
		var parts []string
		for _, x := range c {
			mn := np.MinGigabytePrices.AmountOf(x.Denom)
			if x.Amount.LT(mn) {
				x.Amount = mn
			}
			parts = append(parts, x.Denom+":"+x.Amount.String())
		}
		v := "-"
		if len(parts) > 0 {
			v = strings.Join(parts, ",")
		}
		return g.line("gov space=node key=MaxGigabytePrices coins=%s", v)
	case 4:
		c := ParseCoins(bounds())
		var parts []string
		for _, x := range c {
			mx := np.MaxHourlyPrices.AmountOf(x.Denom)
			if mx.IsPositive() && x.Amount.GT(mx) {
				x.Amount = mx
			}
			parts = append(parts, x.Denom+":"+x.Amount.String())
		}
		v := "-"
		if len(parts) > 0 {
			v = strings.Join(parts, ",")
		}
		return g.line("gov space=node key=MinHourlyPrices coins=%s", v)
	case 5:
		c := ParseCoins(bounds())
		var parts []string
		for _, x := range c {
			mn := np.MinHourlyPrices.AmountOf(x.Denom)
			if x.Amount.LT(mn) {
				x.Amount = mn
			}
			parts = append(parts, x.Denom+":"+x.Amount.String())
		}
		v := "-"
		if len(parts) > 0 {
			v = strings.Join(parts, ",")
		}
		return g.line("gov space=node key=MaxHourlyPrices coins=%s", v)
	case 6:
		return g.line("gov space=node key=StakingShare dec=%s", []string{"0", dec18(0.1), dec18(0.5), "1000000000000000000", "1000000000000000001", "-1"}[g.pick(6)])
	case 7:
		return g.line("gov space=provider key=StakingShare dec=%s", []string{"0", dec18(0.2), "999999999999999999", "1000000000000000000", dec18(0.5), dec18(0.1), dec18(0.25)}[g.pick(7)])
	case 8:
		// raising the subscription delay keeps the monotone coupling H_delay; lowering does not
		nd := subD + []int64{1, 60e9, 3600e9}[g.pick(3)]
		if g.Profile == "govdelay" && g.chance(0.5) {
			nd = sessD
		}
		return g.line("gov space=subscription key=StatusChangeDelay dur=%d", nd)
	case 9:
		nd := sessD
		if sessD > 1 {
			nd = sessD / 2
		}
		if g.Profile == "govdelay" && g.chance(0.3) && sessD*2 <= subD {
			nd = sessD * 2
		}
		if g.chance(0.05) {
			nd = 0
		}
		return g.line("gov space=session key=StatusChangeDelay dur=%d", nd)
	case 10:
		return g.line("gov space=session key=ProofVerificationEnabled bool=%d", g.pick(2))
	case 11:
		switch g.pick(3) {
		case 0:
			return g.line("gov space=swap key=SwapEnabled bool=%d", g.pick(2))
		case 1:
			return g.line("gov space=swap key=ApproveBy addr=%s", hexs(g.actor()))
		}
		return g.line("gov space=node key=ActiveDuration dur=%d", []int64{1, 30e9, 3600e9, 0}[g.pick(4)])
	case 12:
		lo := 1 + g.R.Int63n(3)
		if g.chance(0.5) {
			return g.line("gov space=node key=MinSubscriptionGigabytes int=%d", min64(lo, np.MaxSubscriptionGigabytes))
		}
		if g.Profile == "extreme" && g.chance(0.4) {
			return g.line("gov space=node key=MaxSubscriptionGigabytes int=%d", []int64{9223372036, 9223372037, 18446744074, 9223372036854775807}[g.pick(4)])
		}
		return g.line("gov space=node key=MaxSubscriptionGigabytes int=%d", max64(np.MinSubscriptionGigabytes, lo+g.R.Int63n(30)))
	case 13:
		if g.chance(0.5) {
			return g.line("gov space=node key=Deposit coin=%s:%d", g.denoms[g.pick(2)], g.R.Int63n(100))
		}
		return g.line("gov space=provider key=Deposit coin=%s:%d", g.denoms[g.pick(2)], g.R.Int63n(100))
	}
	return nil
}

func activeSessIDs(v *view) []uint64 {
	var out []uint64
	for _, x := range v.sess {
		if x.status == hubtypes.StatusActive {
			out = append(out, x.id)
		}
	}
	return out
}

func min64(a, b int64) int64 {
	if a < b {
		return a
	}
	return b
}
func max64(a, b int64) int64 {
	if a > b {
		return a
	}
	return b
}

// Block emits one block: begin at a chosen time, some transactions, maybe governance, end.
func (g *Gen) Block() error {
	s := g.Run.Sim
	v := g.view()
	now := s.Time.UnixNano()
	var next int64
	// future deadlines
	var fut []int64
	for _, d := range v.deadlines {
		if d > now {
			fut = append(fut, d)
		}
	}
	if g.Profile == "sessions" && g.chance(0.8) {
		// mostly move to session deadlines, so that sessions settle while nodes and subscriptions live on
		fut = nil
		for _, d := range v.sessDl {
			if d > now {
				fut = append(fut, d)
			}
		}
	}
	sort.Slice(fut, func(i, j int) bool { return fut[i] < fut[j] })
	switch {
	case g.Profile == "sessions" && len(fut) == 0:
		next = now + []int64{1, 1e9, 5e9, 30e9, 6e9, 60e9}[g.pick(6)]
	case len(fut) > 0 && g.chance(0.45):
		d := fut[g.pick(min(len(fut), 3))]
		next = d + []int64{0, 0, -1, 1}[g.pick(4)]
	case g.chance(0.6):
		next = now + []int64{1, 1e9, 5e9, 30e9, 6e9, 7e9}[g.pick(6)]
	case g.chance(0.7):
		next = now + []int64{60e9, 3600e9, 3600e9 + 1, 3 * 3600e9, 120e9, 600e9}[g.pick(6)]
	default:
		next = now + []int64{86400e9, 90 * 86400e9, 7 * 3600e9, 1}[g.pick(4)]
	}
	if next <= now {
		next = now + 1
	}
	g.Stats["block"]++
	if err := g.line("begin t=%d", next); err != nil {
		return err
	}
	if s.Halted != "" {
		return nil
	}
	// identifier counters moved forwards to the width boundaries of the 8-byte identifiers (`jump`): everything
	// after it runs with large identifiers in every id-keyed record, index and queue entry
	jumpP := 0.0
	switch g.Profile {
	case "genesis", "extreme":
		jumpP = 0.07
	case "lifecycle", "keyed":
		jumpP = 0.03
	}
	if g.chance(jumpP) {
		mod := []string{"plan", "subscription", "session"}[g.pick(3)]
		vals := []uint64{254, 255, 256, 65535, 65536, 1<<24 - 1, 1<<32 - 2, 1<<32 - 1, 1 << 32, 1<<32 + 1, 1 << 40, 1<<53 + 1, 1<<56 - 1, 1 << 56, 1<<63 - 3}
		if err := g.line("jump module=%s n=%d", mod, vals[g.pick(len(vals))]+uint64(g.pick(3))); err != nil {
			return err
		}
		g.Stats["jump"]++
	}
	n := g.pick(7)
	for i := 0; i < n; i++ {
		if err := g.Tx(g.view()); err != nil {
			return err
		}
		for g.chance(0.35) {
			if err := g.QueryOp(); err != nil {
				return err
			}
		}
	}
	govP := 0.08
	if g.Profile == "gov" || g.Profile == "govdelay" {
		govP = 0.5
	}
	if g.chance(govP) {
		if err := g.GovOp(); err != nil {
			return err
		}
	}
	if g.chance(0.1) && len(s.Cfg.Inflations) > 0 {
		if err := g.line("mintprobe t=%d", next+[]int64{0, 1, 3600e9}[g.pick(3)]); err != nil {
			return err
		}
	}
	if err := g.line("end"); err != nil {
		return err
	}
	for s.Halted == "" && g.chance(0.4) {
		if err := g.QueryOp(); err != nil {
			return err
		}
	}
	// export / re-import at block boundaries (C12) only in the dedicated profile: after a
	// re-import the chain continues from the imported state
	if g.Profile == "genesis" && s.Halted == "" {
		if g.chance(0.3) {
			if err := g.line("export"); err != nil {
				return err
			}
		}
		// a re-import rebuilds the plan counter as the largest plan identifier; that equals the stored counter in
		// every reachable state (plans are never deleted) but not between a `jump` of the plan counter and the
		// next plan creation - no round trip is asked for in that window
		planCounterAttained := true
		{
			ctx := s.QueryCtx()
			var maxID uint64
			for _, p := range g.view().plans {
				if p.id > maxID {
					maxID = p.id
				}
			}
			planCounterAttained = s.App.VPNKeeper.Plan.GetCount(ctx) == maxID
		}
		if planCounterAttained && g.chance(0.15) {
			if err := g.line("reimport"); err != nil {
				return err
			}
		}
	}
	return nil
}

func min(a, b int) int {
	if a < b {
		return a
	}
	return b
}
