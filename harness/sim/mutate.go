package sim

// Single-field mutations of generated transactions (profile `validate`): after a transaction line has been
// executed, up to three variants of it are executed as well, each with exactly one field moved to a boundary
// of the stateless validation (ValidateBasic) or of the handler's first checks: empty / maximal / one-too-long
// texts, 0 / -1 / +-1 / word-boundary numbers, empty / nil / zero / negative / duplicate / unsorted / badly named
// coins, every status value, role confusion and checksum corruption of every address field, 31/32/33-byte hashes.
// The variants go through the same `tx` path on both sides (ValidateBasic, then the handler on a cache context),
// so what is compared is the accept / reject decision and, when accepted, the whole state delta.

import (
	"fmt"
	"strings"
)

type fieldKind int

const (
	fkNone fieldKind = iota
	fkAddr
	fkI64
	fkU64
	fkInt
	fkCoins
	fkText64
	fkText256
	fkWeb
	fkURL
	fkHash
	fkDenom
	fkStatus
	fkSig
)

func kindOfField(sub, key string) fieldKind {
	switch key {
	case "from", "node", "to", "recv":
		return fkAddr
	case "id", "rating":
		return fkU64
	case "bytes", "up", "down", "amt":
		return fkInt
	case "prices":
		return fkCoins
	case "name", "identity":
		return fkText64
	case "desc":
		return fkText256
	case "website":
		return fkWeb
	case "url":
		return fkURL
	case "hash":
		return fkHash
	case "denom":
		return fkDenom
	case "status":
		return fkStatus
	case "sig":
		return fkSig
	case "dur":
		return fkI64
	case "gb", "hr":
		if sub == "nodeRegister" || sub == "nodeUpdate" {
			return fkCoins
		}
		return fkI64
	}
	return fkNone
}

// mutateTx returns up to n single-field variants of a `tx` line.
func (g *Gen) mutateTx(line string, n int) []string {
	toks := strings.Fields(line)
	if len(toks) < 3 || toks[0] != "tx" {
		return nil
	}
	sub := toks[1]
	type kv struct{ k, v string }
	var fs []kv
	for _, t := range toks[2:] {
		i := strings.IndexByte(t, '=')
		if i < 0 {
			continue
		}
		fs = append(fs, kv{t[:i], t[i+1:]})
	}
	render := func(fs []kv) string {
		parts := []string{"tx", sub}
		for _, f := range fs {
			parts = append(parts, f.k+"="+f.v)
		}
		return strings.Join(parts, " ")
	}
	set := func(fs []kv, k, v string) []kv {
		out := make([]kv, 0, len(fs)+1)
		done := false
		for _, f := range fs {
			if f.k == k {
				f.v = v
				done = true
			}
			out = append(out, f)
		}
		if !done {
			out = append(out, kv{k, v})
		}
		return out
	}
	var cand []int
	for i, f := range fs {
		if kindOfField(sub, f.k) != fkNone {
			cand = append(cand, i)
		}
	}
	var out []string
	for len(out) < n && len(cand) > 0 {
		f := fs[cand[g.pick(len(cand))]]
		rep := func(s string, k int) string { return hexs([]byte(strings.Repeat(s, k))) }
		var v []kv
		switch kindOfField(sub, f.k) {
		case fkAddr:
			switch g.pick(7) {
			case 6:
				// the all-upper-case spelling, for RECEIVER fields only (the handlers decode those to bytes). Sender
				// fields are left in the canonical lower-case rendering: several owner checks of the repository
				// compare the bech32 TEXT (msg.From != plan.ProviderAddress ...), so the owner's own message in upper
				// case is refused - observed, recorded in DESIGN.md section 8 as an observation outside the domain
				if f.k == "to" || f.k == "recv" {
					v = set(fs, f.k+"upper", "1")
				} else {
					v = set(fs, f.k+"role", []string{"acc", "node", "prov"}[g.pick(3)])
				}
			case 0:
				v = set(fs, f.k+"bad", "1")
			case 1, 2:
				v = set(fs, f.k+"role", []string{"acc", "node", "prov"}[g.pick(3)])
			case 3:
				v = set(fs, f.k, "-")
			case 4:
				v = set(fs, f.k, hexs(g.actor()))
			default:
				v = set(fs, f.k, strings.Repeat("ab", []int{1, 20, 32, 255}[g.pick(4)]))
			}
		case fkI64:
			v = set(fs, f.k, []string{"0", "-1", "1", "2", "9223372036854775807", "-9223372036854775808", "2562047", "2562048"}[g.pick(8)])
		case fkU64:
			v = set(fs, f.k, []string{"0", "1", "2", "18446744073709551615", "4294967296", "10", "11"}[g.pick(7)])
		case fkInt:
			v = set(fs, f.k, []string{"0", "-1", "1", "2", "115792089237316195423570985008687907853269984665640564039457584007913129639935",
				"57896044618658097711785492504343953926634992332820282019728792003956564819968", "99", "100", "101", "9223372036854775808"}[g.pick(10)])
		case fkCoins:
			d := g.denoms[g.pick(len(g.denoms))]
			v = set(fs, f.k, []string{"-", "nil", d + ":0", d + ":-1", d + ":1," + d + ":2", "zz:1," + d + ":1", "1bad:5", d + ":1", "x:1",
				d + ":115792089237316195423570985008687907853269984665640564039457584007913129639935"}[g.pick(10)])
		case fkText64:
			v = set(fs, f.k, []string{"-", rep("n", 1), rep("n", 64), rep("n", 65), rep("n", 63)}[g.pick(5)])
		case fkText256:
			v = set(fs, f.k, []string{"-", rep("n", 256), rep("n", 257), rep("n", 255)}[g.pick(4)])
		case fkWeb:
			w := webs[g.pick(len(webs))]
			v = set(set(fs, f.k, hexs([]byte(w))), "webok", b01(WebOK(w)))
		case fkURL:
			u := urls[g.pick(len(urls))]
			v = set(set(fs, f.k, hexs([]byte(u))), "urlok", b01(URLOK(u)))
		case fkHash:
			v = set(fs, f.k, []string{"-", strings.Repeat("5a", 31), strings.Repeat("5a", 32), strings.Repeat("5a", 33), strings.Repeat("00", 32), "01"}[g.pick(6)])
		case fkDenom:
			v = set(fs, f.k, []string{"", "x", "1bad", "zz", g.denoms[g.pick(len(g.denoms))], "UDVPN"}[g.pick(6)])
		case fkStatus:
			v = set(fs, f.k, fmt.Sprint([]int{0, 1, 2, 3, 4, -1, 7}[g.pick(7)]))
		case fkSig:
			v = set(fs, f.k, []string{"none", "short", "zero"}[g.pick(3)])
		}
		l := render(v)
		if l != line {
			out = append(out, l)
		} else if g.chance(0.5) {
			break
		}
	}
	return out
}
