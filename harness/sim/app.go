// Package sim drives the real sentinel hub application in-process (T-corr side
// of the correspondence check). Everything here calls the real keepers, the real
// BaseApp and the real module manager; nothing re-implements hub logic.
package sim

import (
	"encoding/json"
	"fmt"
	"math/big"
	"os"
	"sort"
	"strings"
	"time"

	sdkmath "cosmossdk.io/math"
	dbm "github.com/cometbft/cometbft-db"
	abci "github.com/cometbft/cometbft/abci/types"
	cmted25519 "github.com/cometbft/cometbft/crypto/ed25519"
	"github.com/cometbft/cometbft/libs/log"
	tmproto "github.com/cometbft/cometbft/proto/tendermint/types"
	tmtypes "github.com/cometbft/cometbft/types"
	"github.com/cosmos/cosmos-sdk/baseapp"
	"github.com/cosmos/cosmos-sdk/crypto/keys/secp256k1"
	simtestutil "github.com/cosmos/cosmos-sdk/testutil/sims"
	sdk "github.com/cosmos/cosmos-sdk/types"
	authtypes "github.com/cosmos/cosmos-sdk/x/auth/types"
	banktypes "github.com/cosmos/cosmos-sdk/x/bank/types"
	distrtypes "github.com/cosmos/cosmos-sdk/x/distribution/types"

	hubapp "github.com/sentinel-official/hub/v12/app"
	hubtypes "github.com/sentinel-official/hub/v12/types"
	deposittypes "github.com/sentinel-official/hub/v12/x/deposit/types"
	customminttypes "github.com/sentinel-official/hub/v12/x/mint/types"
	nodetypes "github.com/sentinel-official/hub/v12/x/node/types"
	providertypes "github.com/sentinel-official/hub/v12/x/provider/types"
	sessiontypes "github.com/sentinel-official/hub/v12/x/session/types"
	subscriptiontypes "github.com/sentinel-official/hub/v12/x/subscription/types"
	swaptypes "github.com/sentinel-official/hub/v12/x/swap/types"
	vpntypes "github.com/sentinel-official/hub/v12/x/vpn/types"
)

const ChainID = "hub-verif"

func init() {
	cfg := hubtypes.GetConfig()
	cfg.SetBech32PrefixForAccount(hubtypes.Bech32PrefixAccAddr, hubtypes.Bech32PrefixAccPub)
	cfg.SetBech32PrefixForValidator(hubtypes.Bech32PrefixValAddr, hubtypes.Bech32PrefixValPub)
	cfg.SetBech32PrefixForConsensusNode(hubtypes.Bech32PrefixConsAddr, hubtypes.Bech32PrefixConsPub)
	cfg.SetBech32PrefixForProvider(hubtypes.Bech32PrefixProvAddr, hubtypes.Bech32PrefixProvPub)
	cfg.SetBech32PrefixForNode(hubtypes.Bech32PrefixNodeAddr, hubtypes.Bech32PrefixNodePub)
	cfg.Seal()
}

// Config is the genesis configuration (DESIGN.md §5), filled from the `init`,
// `bal`, `key` and `infl` lines of an operation file.
type Config struct {
	Time int64 // genesis time, ns

	ProviderDeposit sdk.Coin
	ProviderShare   sdkmath.LegacyDec

	NodeDeposit        sdk.Coin
	NodeActiveDuration time.Duration
	MaxGB, MinGB       sdk.Coins
	MaxHr, MinHr       sdk.Coins
	MaxSubGB, MinSubGB int64
	MaxSubHr, MinSubHr int64
	NodeShare          sdkmath.LegacyDec

	SubDelay  time.Duration
	SessDelay time.Duration
	ProofOn   bool

	SwapEnabled bool
	SwapDenom   string
	ApproveBy   []byte

	Balances   []Balance
	Keyed      map[string]int // addr hex -> key index (secp256k1 key derived from index)
	Inflations []customminttypes.Inflation
}

type Balance struct {
	Addr  []byte
	Denom string
	Amt   sdkmath.Int
}

// Sim is one running application instance.
type Sim struct {
	App     *hubapp.App
	Cfg     *Config
	Height  int64
	Time    time.Time
	InBlock bool
	Denoms  []string // tracked denominations (sorted)
	Actors  [][]byte // tracked account addresses
	hdr     tmproto.Header
	tmp     string
	db      dbm.DB   // the instance's database (for `restart`)
	oldTmp  []string // home directories of instances replaced by `restart`
	Halted  string // non-empty once a hook panicked
	// Pending: the genesis state of this application instance (InitChain, and on a re-import the typed
	// InitGenesis calls) lives in the deliver state only; it is committed together with the first block
	// (`start` and `reimport` both leave the instance in this state, the first `end` clears it)
	Pending bool
}

// KeyFor returns the deterministic secp256k1 key with the given index.
func KeyFor(i int) *secp256k1.PrivKey {
	return secp256k1.GenPrivKeyFromSecret([]byte(fmt.Sprintf("verif-actor-%d", i)))
}

type emptyOpts struct{}

func (emptyOpts) Get(string) interface{} { return nil }

// lastDB is the database of the application instance built last by newApp (kept by the Sim for `restart`).
var lastDB dbm.DB

func newApp(home string) *hubapp.App {
	lastDB = dbm.NewMemDB()
	return newAppOn(home, lastDB)
}

// newAppOn builds an application instance over an existing database (loadLatest: the committed state is loaded).
func newAppOn(home string, db dbm.DB) *hubapp.App {
	return hubapp.NewApp(
		emptyOpts{}, hubtypes.Bech32MainPrefix, db, hubapp.DefaultEncodingConfig(), home, 0, true,
		log.NewNopLogger(), true, map[int64]bool{}, nil, "verif", nil, baseapp.SetChainID(ChainID),
	)
}

func unixNano(ns int64) time.Time { return time.Unix(0, ns).UTC() }

// TimeNS renders any time.Time (including the zero time) as integer ns since the Unix epoch.
func TimeNS(t time.Time) string {
	v := new(big.Int).Mul(big.NewInt(t.Unix()), big.NewInt(1000000000))
	v.Add(v, big.NewInt(int64(t.Nanosecond())))
	return v.String()
}

// VPNGenesis builds the vpn genesis section from the configuration (empty tables).
func (c *Config) VPNGenesis() *vpntypes.GenesisState {
	gs := vpntypes.DefaultGenesisState()
	gs.Providers.Params = providertypes.Params{Deposit: c.ProviderDeposit, StakingShare: c.ProviderShare}
	gs.Nodes.Params = nodetypes.NewParams(c.NodeDeposit, c.NodeActiveDuration, c.MaxGB, c.MinGB, c.MaxHr, c.MinHr,
		c.MaxSubGB, c.MinSubGB, c.MaxSubHr, c.MinSubHr, c.NodeShare)
	gs.Subscriptions.Params = subscriptiontypes.Params{StatusChangeDelay: c.SubDelay}
	gs.Sessions.Params = sessiontypes.Params{StatusChangeDelay: c.SessDelay, ProofVerificationEnabled: c.ProofOn}
	return gs
}

// New boots the real application from the configuration.
func New(c *Config) (*Sim, error) {
	return NewWithVPN(c, nil, nil, nil)
}

// NewWithVPN boots the real application; when vpn/swap/mint sections are given
// they replace the ones derived from the configuration (genesis re-import, C12),
// and extra holds the bank balances to start from.
func NewWithVPN(c *Config, vpn *vpntypes.GenesisState, swapGS *swaptypes.GenesisState, extra []Balance) (*Sim, error) {
	tmp, err := os.MkdirTemp("", "hubsim")
	if err != nil {
		return nil, err
	}
	a := newApp(tmp)
	appDB := lastDB
	cdc := a.Codec

	gen := hubapp.ModuleBasics.DefaultGenesis(cdc)
	if vpn == nil {
		vpn = c.VPNGenesis()
	}
	if err := vpn.Validate(); err != nil {
		return nil, fmt.Errorf("vpn genesis invalid: %w", err)
	}
	gen[vpntypes.ModuleName] = cdc.MustMarshalJSON(vpn)

	if swapGS == nil {
		swapGS = &swaptypes.GenesisState{Params: swaptypes.Params{
			SwapEnabled: c.SwapEnabled, SwapDenom: c.SwapDenom, ApproveBy: sdk.AccAddress(c.ApproveBy).String(),
		}}
	}
	gen[swaptypes.ModuleName] = cdc.MustMarshalJSON(swapGS)
	mintGS := customminttypes.NewGenesisState(c.Inflations)
	if err := mintGS.Validate(); err != nil {
		return nil, fmt.Errorf("custommint genesis invalid: %w", err)
	}
	gen[customminttypes.ModuleName] = cdc.MustMarshalJSON(mintGS)

	// validator set (one bonded validator, deterministic key)
	valKey := cmted25519.GenPrivKeyFromSecret([]byte("verif-validator"))
	val := tmtypes.NewValidator(valKey.PubKey(), 1)
	valSet := tmtypes.NewValidatorSet([]*tmtypes.Validator{val})

	// accounts and balances
	bals := c.Balances
	if extra != nil {
		bals = extra
	}
	byAddr := map[string]sdk.Coins{}
	var order []string
	for _, b := range bals {
		k := string(b.Addr)
		if _, ok := byAddr[k]; !ok {
			order = append(order, k)
			byAddr[k] = sdk.NewCoins()
		}
		if b.Amt.IsPositive() {
			byAddr[k] = byAddr[k].Add(sdk.NewCoin(b.Denom, b.Amt))
		}
	}
	for h := range c.Keyed {
		k := string(mustHex(h))
		if _, ok := byAddr[k]; !ok {
			order = append(order, k)
			byAddr[k] = sdk.NewCoins()
		}
	}
	sort.Strings(order)
	delegator := authtypes.NewBaseAccount(sdk.AccAddress(secp256k1.GenPrivKeyFromSecret([]byte("verif-delegator")).PubKey().Address()), nil, 0, 0)
	genAccs := []authtypes.GenesisAccount{delegator}
	var balances []banktypes.Balance
	balances = append(balances, banktypes.Balance{Address: delegator.Address, Coins: sdk.NewCoins(sdk.NewCoin(sdk.DefaultBondDenom, sdkmath.NewInt(1000000000)))})
	denoms := map[string]bool{}
	var actors [][]byte
	moduleAddrs := map[string]bool{}
	for name := range hubapp.ModuleAccPerms() {
		moduleAddrs[string(authtypes.NewModuleAddress(name))] = true
	}
	for i, k := range order {
		addr := sdk.AccAddress([]byte(k))
		if moduleAddrs[k] {
			// module accounts are created by their modules; a genesis balance for one is
			// given through the bank section only (used on re-import, C12).
			if !byAddr[k].IsZero() {
				balances = append(balances, banktypes.Balance{Address: addr.String(), Coins: byAddr[k]})
			}
			continue
		}
		actors = append(actors, []byte(k))
		acc := authtypes.NewBaseAccount(addr, nil, uint64(i+1), 0)
		if idx, ok := c.Keyed[fmt.Sprintf("%x", []byte(k))]; ok {
			if err := acc.SetPubKey(KeyFor(idx).PubKey()); err != nil {
				return nil, err
			}
		}
		genAccs = append(genAccs, acc)
		if !byAddr[k].IsZero() {
			balances = append(balances, banktypes.Balance{Address: addr.String(), Coins: byAddr[k]})
		}
	}
	for _, b := range bals {
		denoms[b.Denom] = true
	}
	if c.SwapDenom != "" {
		denoms[c.SwapDenom] = true
	}
	gen, err = simtestutil.GenesisStateWithValSet(cdc, gen, valSet, genAccs, balances...)
	if err != nil {
		return nil, err
	}
	// a re-imported deposit module balance requires the module account to exist with that balance:
	// bank InitGenesis accepts balances of not-yet-created accounts, the module account is created lazily.
	stateBytes, err := json.MarshalIndent(gen, "", " ")
	if err != nil {
		return nil, err
	}

	s := &Sim{App: a, Cfg: c, tmp: tmp, Actors: actors, db: appDB}
	for d := range denoms {
		s.Denoms = append(s.Denoms, d)
	}
	sort.Strings(s.Denoms)
	s.Time = unixNano(c.Time)
	var initErr error
	func() {
		defer func() {
			if r := recover(); r != nil {
				initErr = fmt.Errorf("InitChain panicked: %v", r)
			}
		}()
		a.InitChain(abci.RequestInitChain{
			ChainId:         ChainID,
			Time:            s.Time,
			Validators:      []abci.ValidatorUpdate{},
			ConsensusParams: simtestutil.DefaultConsensusParams,
			AppStateBytes:   stateBytes,
		})
		// no Commit here: as on a real chain the genesis state is committed together with block 1, whose
		// BeginBlock runs at height 1 (several SDK modules and, potentially, hub code special-case it)
	}()
	if initErr != nil {
		s.Close()
		return nil, initErr
	}
	s.Height = 0
	s.Pending = true
	s.hdr = tmproto.Header{ChainID: ChainID, Height: 1, Time: s.Time}
	return s, nil
}

func (s *Sim) Close() {
	if s.tmp != "" {
		os.RemoveAll(s.tmp)
	}
	for _, t := range s.oldTmp {
		os.RemoveAll(t)
	}
}

// Restart implements `restart`: the process is "restarted" between two blocks - a NEW application instance (new
// keepers, new message servers: nothing kept in memory survives) is opened over the same database and loads the last
// committed state. A correct application continues exactly as before; state kept in process memory between blocks
// (a cached parameter, a counter in a keeper field) is lost, which shows as a different continuation.
func (s *Sim) Restart() (res string) {
	if s.InBlock || s.Pending || s.db == nil {
		return "reject:restart:notcommitted"
	}
	defer func() {
		if x := recover(); x != nil {
			res = "reject:restart:panic:" + firstWords(fmt.Sprint(x))
		}
	}()
	tmp, err := os.MkdirTemp("", "hubsim")
	if err != nil {
		return "reject:restart:" + firstWords(err.Error())
	}
	a := newAppOn(tmp, s.db)
	if a.LastBlockHeight() != s.Height {
		os.RemoveAll(tmp)
		return fmt.Sprintf("reject:restart:height_%d_expected_%d", a.LastBlockHeight(), s.Height)
	}
	s.oldTmp = append(s.oldTmp, s.tmp)
	s.tmp = tmp
	s.App = a
	return "accept"
}

// Ctx returns a context over the deliver state (between BeginBlock and Commit) with a fresh event manager.
func (s *Sim) Ctx() sdk.Context {
	return s.App.NewContext(false, s.hdr).WithEventManager(sdk.NewEventManager())
}

// QueryCtx returns a context usable outside a block (reads committed state through the check state).
func (s *Sim) QueryCtx() sdk.Context {
	if s.InBlock || s.Pending {
		// before the first block of an application instance (after `start` or `reimport`) the genesis
		// state lives in the deliver state only; s.hdr is the InitChain header
		return s.Ctx()
	}
	return s.App.NewContext(true, tmproto.Header{ChainID: ChainID, Height: s.Height, Time: s.Time}).WithEventManager(sdk.NewEventManager())
}

// Begin runs the real BeginBlock of every module in the real order. A panic is reported as a halt.
func (s *Sim) Begin(t int64) (events []abci.Event, halt string) {
	s.Height++
	s.Time = unixNano(t)
	s.hdr = tmproto.Header{ChainID: ChainID, Height: s.Height, Time: s.Time}
	defer func() {
		if r := recover(); r != nil {
			halt = fmt.Sprint(r)
			s.Halted = halt
		}
	}()
	res := s.App.BeginBlock(abci.RequestBeginBlock{Header: s.hdr})
	s.InBlock = true
	return res.Events, ""
}

// End runs the real EndBlock and Commit.
func (s *Sim) End() (events []abci.Event, halt string) {
	defer func() {
		if r := recover(); r != nil {
			halt = fmt.Sprint(r)
			s.Halted = halt
		}
	}()
	res := s.App.EndBlock(abci.RequestEndBlock{Height: s.Height})
	s.App.Commit()
	s.InBlock = false
	s.Pending = false
	return res.Events, ""
}

// Deliver validates and executes one message the way runTx/runMsgs do: ValidateBasic, then the
// routed handler in a cache context that is written only on success; a panic discards it.
func (s *Sim) Deliver(msg sdk.Msg) (events []abci.Event, class string) {
	if err := msg.ValidateBasic(); err != nil {
		return nil, "reject:validate:" + errClass(err)
	}
	handler := s.App.MsgServiceRouter().Handler(msg)
	if handler == nil {
		return nil, "reject:noroute"
	}
	ctx := s.Ctx()
	cctx, write := ctx.CacheContext()
	var res *sdk.Result
	var err error
	func() {
		defer func() {
			if r := recover(); r != nil {
				err = fmt.Errorf("panic: %v", r)
			}
		}()
		res, err = handler(cctx, msg)
	}()
	if err != nil {
		if strings.HasPrefix(err.Error(), "panic:") {
			return nil, "reject:panic:" + firstWords(err.Error())
		}
		return nil, "reject:handler:" + errClass(err)
	}
	write()
	return res.GetEvents().ToABCIEvents(), "accept"
}

func errClass(err error) string {
	return firstWords(err.Error())
}

func firstWords(s string) string {
	s = strings.Map(func(r rune) rune {
		if r == ' ' || r == '\n' || r == '\t' {
			return '_'
		}
		return r
	}, s)
	if len(s) > 700 {
		s = s[:700]
	}
	return s
}

// ModuleAddr returns the address of a module account.
func ModuleAddr(name string) sdk.AccAddress { return authtypes.NewModuleAddress(name) }

var (
	DepositAddr      = ModuleAddr(deposittypes.ModuleName)
	FeeCollectorAddr = ModuleAddr(authtypes.FeeCollectorName)
	DistrAddr        = ModuleAddr(distrtypes.ModuleName)
	SwapAddr         = ModuleAddr(swaptypes.ModuleName)
)

func mustHex(s string) []byte {
	b, err := hexDecode(s)
	if err != nil {
		panic(err)
	}
	return b
}
