package sim

// Genesis export and re-import (property C12).
//
// `export`   calls the real vpn/swap/custommint ExportGenesis on the committed state, validates the
//            exported values with the real Validate functions and prints one `G` line per exported
//            record (export order, field formatting of dump.go).
// `reimport` does the same export, then boots a SECOND real application whose vpn, swap and
//            custommint state is initialised by the real InitGenesis functions from exactly the
//            exported Go values (struct level, no JSON -- see the note on F7 at bootGenesis), whose bank balances are the
//            current balances of every account in the tracked denominations (module accounts
//            included: the escrow account `deposit` keeps backing the deposit records), and whose SDK
//            mint parameters/minter are the current ones.  Height and time continue.  As on a real chain (and as
//            after `start`) the imported genesis is NOT committed by itself: the next `begin` runs the first
//            block of the new application instance on the uncommitted genesis state, at InitialHeight = old
//            height + 1, and the genesis is committed together with that block.  InitGenesis writes every
//            parameter with SetParams, which marks the four node price-bound keys as modified in the params
//            transient store, so the first EndBlock after a re-import runs the node price sweep.
//
// What is NOT carried over (outside the compared projection): balances in untracked denominations
// (the staking bond denomination: validator bond, SDK block provisions), distribution bookkeeping
// other than the community pool (set to the distribution account's tracked balance, which is what the
// module demands of a genesis), account numbers/sequences, staking/slashing/gov state.

import (
	"encoding/json"
	"fmt"
	"os"
	"sort"
	"strings"
	"time"

	sdkmath "cosmossdk.io/math"
	abci "github.com/cometbft/cometbft/abci/types"
	cmted25519 "github.com/cometbft/cometbft/crypto/ed25519"
	tmproto "github.com/cometbft/cometbft/proto/tendermint/types"
	tmtypes "github.com/cometbft/cometbft/types"
	"github.com/cosmos/cosmos-sdk/crypto/keys/secp256k1"
	simtestutil "github.com/cosmos/cosmos-sdk/testutil/sims"
	sdk "github.com/cosmos/cosmos-sdk/types"
	authtypes "github.com/cosmos/cosmos-sdk/x/auth/types"
	banktypes "github.com/cosmos/cosmos-sdk/x/bank/types"
	distrtypes "github.com/cosmos/cosmos-sdk/x/distribution/types"
	minttypes "github.com/cosmos/cosmos-sdk/x/mint/types"
	stakingtypes "github.com/cosmos/cosmos-sdk/x/staking/types"

	hubapp "github.com/sentinel-official/hub/v12/app"
	custommint "github.com/sentinel-official/hub/v12/x/mint"
	customminttypes "github.com/sentinel-official/hub/v12/x/mint/types"
	nodetypes "github.com/sentinel-official/hub/v12/x/node/types"
	providertypes "github.com/sentinel-official/hub/v12/x/provider/types"
	sessiontypes "github.com/sentinel-official/hub/v12/x/session/types"
	"github.com/sentinel-official/hub/v12/x/swap"
	swaptypes "github.com/sentinel-official/hub/v12/x/swap/types"
	"github.com/sentinel-official/hub/v12/x/vpn"
	vpntypes "github.com/sentinel-official/hub/v12/x/vpn/types"
)

// Exported is the hub part of an exported genesis, as Go values.
type Exported struct {
	VPN  *vpntypes.GenesisState
	Swap *swaptypes.GenesisState
	Mint *customminttypes.GenesisState
}

// ExportHub runs the real ExportGenesis functions of the three hub modules on the current state.
// A panic inside an export function (e.g. a dangling node-for-plan key) is returned as an error.
func (s *Sim) ExportHub() (ex *Exported, err error) {
	defer func() {
		if r := recover(); r != nil {
			ex, err = nil, fmt.Errorf("panic: %v", r)
		}
	}()
	ctx := s.QueryCtx()
	return &Exported{
		VPN:  vpn.ExportGenesis(ctx, s.App.VPNKeeper),
		Swap: swap.ExportGenesis(ctx, s.App.SwapKeeper),
		Mint: custommint.ExportGenesis(ctx, s.App.CustomMintKeeper),
	}, nil
}

// Validate runs the real genesis validation of every exported section; "" = valid, otherwise
// "<module>:<error text>".
func (ex *Exported) Validate() (res string) {
	defer func() {
		if r := recover(); r != nil {
			res = "panic:" + firstWords(fmt.Sprint(r))
		}
	}()
	if err := ex.VPN.Validate(); err != nil {
		return "vpn:" + firstWords(err.Error())
	}
	if err := ex.Swap.Validate(); err != nil {
		return "swap:" + firstWords(err.Error())
	}
	if err := ex.Mint.Validate(); err != nil {
		return "custommint:" + firstWords(err.Error())
	}
	return ""
}

func gfmtProvider(p providertypes.Provider) string {
	return fmt.Sprintf("addr=%s name=%s identity=%s website=%s desc=%s status=%d statusAt=%s", addrField(p.Address),
		hx([]byte(p.Name)), hx([]byte(p.Identity)), hx([]byte(p.Website)), hx([]byte(p.Description)), int32(p.Status), TimeNS(p.StatusAt))
}

func gfmtNode(n nodetypes.Node) string {
	return fmt.Sprintf("addr=%s gb=%s hr=%s url=%s inactiveAt=%s status=%d statusAt=%s", addrField(n.Address),
		FmtCoins(n.GigabytePrices), FmtCoins(n.HourlyPrices), hx([]byte(n.RemoteURL)), TimeNS(n.InactiveAt), int32(n.Status), TimeNS(n.StatusAt))
}

func gfmtSession(x sessiontypes.Session) string {
	return fmt.Sprintf("id=%d sub=%d node=%s addr=%s up=%s down=%s dur=%d inactiveAt=%s status=%d statusAt=%s", x.ID, x.SubscriptionID,
		addrField(x.NodeAddress), addrField(x.Address), x.Bandwidth.Upload, x.Bandwidth.Download, int64(x.Duration),
		TimeNS(x.InactiveAt), int32(x.Status), TimeNS(x.StatusAt))
}

// Lines renders the exported genesis canonically: one `G` line per exported record, in export
// order (deposits, providers, nodes, plans with their linked nodes, the number of exported
// subscriptions, sessions, swaps, inflation entries), then the five parameter sets as exported.
func (ex *Exported) Lines() []string {
	var out []string
	for _, d := range ex.VPN.Deposits {
		out = append(out, fmt.Sprintf("G deposit addr=%s coins=%s", addrField(d.Address), FmtCoins(d.Coins)))
	}
	for _, p := range ex.VPN.Providers.Providers {
		out = append(out, "G provider "+gfmtProvider(p))
	}
	for _, n := range ex.VPN.Nodes.Nodes {
		out = append(out, "G node "+gfmtNode(n))
	}
	for _, it := range ex.VPN.Plans {
		p := it.Plan
		nodes := "-"
		if len(it.Nodes) > 0 {
			parts := make([]string, len(it.Nodes))
			for i, a := range it.Nodes {
				parts[i] = addrField(a)
			}
			nodes = strings.Join(parts, ",")
		}
		out = append(out, fmt.Sprintf("G plan id=%d prov=%s dur=%d gb=%d prices=%s status=%d statusAt=%s nodes=%s", p.ID, addrField(p.ProviderAddress),
			int64(p.Duration), p.Gigabytes, FmtCoins(p.Prices), int32(p.Status), TimeNS(p.StatusAt), nodes))
	}
	out = append(out, fmt.Sprintf("G subscription count=%d", len(ex.VPN.Subscriptions.Subscriptions)))
	for _, x := range ex.VPN.Sessions.Sessions {
		out = append(out, "G session "+gfmtSession(x))
	}
	for _, sw := range ex.Swap.Swaps {
		out = append(out, fmt.Sprintf("G swap hash=%s recv=%s amt=%s", hx(sw.TxHash), addrField(sw.Receiver), FmtCoin(sw.Amount)))
	}
	for _, in := range ex.Mint.Inflations {
		out = append(out, fmt.Sprintf("G inflation ts=%s max=%s min=%s rate=%s", TimeNS(in.Timestamp), in.Max.BigInt(), in.Min.BigInt(), in.RateChange.BigInt()))
	}
	pp := ex.VPN.Providers.Params
	out = append(out, fmt.Sprintf("G params provider deposit=%s share=%s", FmtCoin(pp.Deposit), pp.StakingShare.BigInt()))
	np := ex.VPN.Nodes.Params
	out = append(out, fmt.Sprintf("G params node deposit=%s activeDur=%d maxGB=%s minGB=%s maxHr=%s minHr=%s maxSubGB=%d minSubGB=%d maxSubHr=%d minSubHr=%d share=%s",
		FmtCoin(np.Deposit), int64(np.ActiveDuration), FmtCoins(np.MaxGigabytePrices), FmtCoins(np.MinGigabytePrices),
		FmtCoins(np.MaxHourlyPrices), FmtCoins(np.MinHourlyPrices), np.MaxSubscriptionGigabytes, np.MinSubscriptionGigabytes,
		np.MaxSubscriptionHours, np.MinSubscriptionHours, np.StakingShare.BigInt()))
	out = append(out, fmt.Sprintf("G params subscription delay=%d", int64(ex.VPN.Subscriptions.Params.StatusChangeDelay)))
	ep := ex.VPN.Sessions.Params
	out = append(out, fmt.Sprintf("G params session delay=%d proof=%s", int64(ep.StatusChangeDelay), b01(ep.ProofVerificationEnabled)))
	wp := ex.Swap.Params
	out = append(out, fmt.Sprintf("G params swap on=%s denom=%s approveBy=%s", b01(wp.SwapEnabled), wp.SwapDenom, addrField(wp.ApproveBy)))
	return out
}

// Export implements the `export` operation.
func (s *Sim) Export(o *Op) (string, []string) {
	if s.InBlock {
		return "reject:inblock", nil
	}
	ex, err := s.ExportHub()
	if err != nil {
		return "reject:export:" + firstWords(err.Error()), nil
	}
	res := "accept"
	if v := ex.Validate(); v != "" {
		res = "reject:" + v
	}
	return res, ex.Lines()
}

// TrackedBalances lists the non-zero balance of every account (module accounts included) in the
// tracked denominations, in store order.
func (s *Sim) TrackedBalances() []Balance {
	ctx := s.QueryCtx()
	tracked := map[string]bool{}
	for _, d := range s.Denoms {
		tracked[d] = true
	}
	var out []Balance
	s.App.BankKeeper.IterateAllBalances(ctx, func(a sdk.AccAddress, c sdk.Coin) bool {
		if tracked[c.Denom] && !c.Amount.IsZero() {
			out = append(out, Balance{Addr: append([]byte{}, a...), Denom: c.Denom, Amt: c.Amount})
		}
		return false
	})
	return out
}

// Reimport implements the `reimport` operation.
func (r *Runner) Reimport(o *Op) (string, error) {
	s := r.Sim
	if s.InBlock {
		return "reject:inblock", nil
	}
	ex, err := s.ExportHub()
	if err != nil {
		return "reject:export:" + firstWords(err.Error()), nil
	}
	if v := ex.Validate(); v != "" {
		i := strings.IndexByte(v, ':')
		return "reject:invalid:" + v[:i], nil
	}
	for _, d := range s.Denoms {
		if d == sdk.DefaultBondDenom {
			return "reject:boot:bond_denomination_is_tracked", nil
		}
	}
	ctx := s.QueryCtx()
	sdkMint := minttypes.NewGenesisState(s.App.MintKeeper.GetMinter(ctx), s.App.MintKeeper.GetParams(ctx))
	ns, err := bootGenesis(s.Cfg, ex, s.TrackedBalances(), sdkMint, s.Denoms, s.Height, s.Time)
	if err != nil {
		return "reject:boot:" + firstWords(err.Error()), nil
	}
	s.Close()
	r.Sim = ns
	r.prev = nil
	return "accept", nil
}

// bootGenesis boots a fresh real application from an exported hub genesis. It follows NewWithVPN with
// the differences a re-import needs and NewWithVPN has no parameter for:
//   - the hub sections are imported at STRUCT level: InitChain runs with hub sections that hold only the
//     exported parameters (no records), then the real vpn.InitGenesis, swap.InitGenesis and
//     custommint.InitGenesis are called with the exported Go values on the deliver state of the
//     genesis block, before it is committed. (F7: every JSON rendering of a vpn genesis that holds a
//     provider, node, plan or session -- codec.MustMarshalJSON included, not only
//     ExportAppStateAndValidators -- prints "status":"active", which InitChain cannot parse. Handing
//     the exported value to InitChain as JSON fails with `unknown value "active" for enum
//     sentinel.types.v1.Status`; observed with this very function before it was changed.)
//   - the SDK mint section (minter, parameters) is given,
//   - the distribution community pool equals the carried balance of the distribution account
//     (x/distribution refuses a genesis in which they differ),
//   - the chain's first block is height+1 (InitialHeight) at or after the given time, so the next `begin`
//     continues the numbering; `height` is the height of the last block of the exporting instance.
//
// Like NewWithVPN it does NOT commit: the instance is left with its genesis in the deliver state (Sim.Pending).
func bootGenesis(c *Config, ex *Exported, bals []Balance, sdkMint *minttypes.GenesisState, denoms []string, height int64, now time.Time) (*Sim, error) {
	tmp, err := os.MkdirTemp("", "hubsim")
	if err != nil {
		return nil, err
	}
	fail := func(err error) (*Sim, error) {
		os.RemoveAll(tmp)
		return nil, err
	}
	a := newApp(tmp)
	appDB := lastDB
	cdc := a.Codec

	gen := hubapp.ModuleBasics.DefaultGenesis(cdc)
	shell := vpntypes.DefaultGenesisState()
	shell.Providers.Params = ex.VPN.Providers.Params
	shell.Nodes.Params = ex.VPN.Nodes.Params
	shell.Subscriptions.Params = ex.VPN.Subscriptions.Params
	shell.Sessions.Params = ex.VPN.Sessions.Params
	gen[vpntypes.ModuleName] = cdc.MustMarshalJSON(shell)
	gen[swaptypes.ModuleName] = cdc.MustMarshalJSON(&swaptypes.GenesisState{Params: ex.Swap.Params})
	gen[customminttypes.ModuleName] = cdc.MustMarshalJSON(customminttypes.NewGenesisState(nil))
	if sdkMint != nil {
		gen[minttypes.ModuleName] = cdc.MustMarshalJSON(sdkMint)
	}

	valKey := cmted25519.GenPrivKeyFromSecret([]byte("verif-validator"))
	val := tmtypes.NewValidator(valKey.PubKey(), 1)
	valSet := tmtypes.NewValidatorSet([]*tmtypes.Validator{val})

	byAddr := map[string]sdk.Coins{}
	var order []string
	for _, b := range bals {
		k := string(b.Addr)
		if _, ok := byAddr[k]; !ok {
			order = append(order, k)
			byAddr[k] = sdk.NewCoins()
		}
		if b.Amt.IsPositive() {
			byAddr[k] = byAddr[k].Add(sdk.NewCoin(b.Denom, b.Amt))
		}
	}
	for h := range c.Keyed {
		k := string(mustHex(h))
		if _, ok := byAddr[k]; !ok {
			order = append(order, k)
			byAddr[k] = sdk.NewCoins()
		}
	}
	sort.Strings(order)
	delegator := authtypes.NewBaseAccount(sdk.AccAddress(secp256k1.GenPrivKeyFromSecret([]byte("verif-delegator")).PubKey().Address()), nil, 0, 0)
	genAccs := []authtypes.GenesisAccount{delegator}
	balances := []banktypes.Balance{{Address: delegator.Address, Coins: sdk.NewCoins(sdk.NewCoin(sdk.DefaultBondDenom, sdkmath.NewInt(1000000000)))}}
	moduleAddrs := map[string]bool{}
	for name := range hubapp.ModuleAccPerms() {
		moduleAddrs[string(authtypes.NewModuleAddress(name))] = true
	}
	bondedPool := string(authtypes.NewModuleAddress(stakingtypes.BondedPoolName))
	var actors [][]byte
	for i, k := range order {
		addr := sdk.AccAddress([]byte(k))
		if k == bondedPool || k == string(delegator.GetAddress()) {
			return fail(fmt.Errorf("tracked balance held by a bootstrap account %x", []byte(k)))
		}
		if moduleAddrs[k] {
			// module accounts are created by their modules (lazily, or in their InitGenesis); the
			// balance is given through the bank section only.
			if !byAddr[k].IsZero() {
				balances = append(balances, banktypes.Balance{Address: addr.String(), Coins: byAddr[k]})
			}
			continue
		}
		actors = append(actors, []byte(k))
		acc := authtypes.NewBaseAccount(addr, nil, uint64(i+1), 0)
		if idx, ok := c.Keyed[fmt.Sprintf("%x", []byte(k))]; ok {
			if err := acc.SetPubKey(KeyFor(idx).PubKey()); err != nil {
				return fail(err)
			}
		}
		genAccs = append(genAccs, acc)
		if !byAddr[k].IsZero() {
			balances = append(balances, banktypes.Balance{Address: addr.String(), Coins: byAddr[k]})
		}
	}
	gen, err = simtestutil.GenesisStateWithValSet(cdc, gen, valSet, genAccs, balances...)
	if err != nil {
		return fail(err)
	}
	// x/distribution InitGenesis panics unless its account's balance equals the recorded holdings.
	if pool := byAddr[string(DistrAddr)]; !pool.IsZero() {
		var dg distrtypes.GenesisState
		cdc.MustUnmarshalJSON(gen[distrtypes.ModuleName], &dg)
		dg.FeePool.CommunityPool = sdk.NewDecCoinsFromCoins(pool...)
		gen[distrtypes.ModuleName] = cdc.MustMarshalJSON(&dg)
	}
	stateBytes, err := json.MarshalIndent(gen, "", " ")
	if err != nil {
		return fail(err)
	}

	// the configuration object is kept: after boot only Cfg.Keyed (registered keys) is read.
	s := &Sim{App: a, Cfg: c, tmp: tmp, Actors: actors, db: appDB}
	s.Denoms = append([]string{}, denoms...)
	sort.Strings(s.Denoms)
	s.Time = now
	// Begin increments Height before it builds the header: the first block of this instance is `first`
	if height < 0 {
		height = 0
	}
	first := height + 1
	s.Height = height
	s.Pending = true
	s.hdr = tmproto.Header{ChainID: ChainID, Height: first, Time: now}
	var initErr error
	func() {
		defer func() {
			if r := recover(); r != nil {
				initErr = fmt.Errorf("InitChain panicked: %v", r)
			}
		}()
		a.InitChain(abci.RequestInitChain{
			ChainId:         ChainID,
			Time:            now,
			InitialHeight:   first,
			Validators:      []abci.ValidatorUpdate{},
			ConsensusParams: simtestutil.DefaultConsensusParams,
			AppStateBytes:   stateBytes,
		})
		ctx := a.NewContext(false, s.hdr)
		vpn.InitGenesis(ctx, a.VPNKeeper, ex.VPN)
		swap.InitGenesis(ctx, a.SwapKeeper, ex.Swap)
		custommint.InitGenesis(ctx, a.CustomMintKeeper, ex.Mint)
		// no Commit here (see NewWithVPN): genesis and first block share one commit, the params transient
		// store still holds the "modified" marks of every SetParams when the first EndBlock runs
	}()
	if initErr != nil {
		s.Close()
		return nil, initErr
	}
	if got := a.LastBlockHeight(); got != 0 {
		s.Close()
		return nil, fmt.Errorf("re-imported chain has committed height %d before its first block", got)
	}
	return s, nil
}
