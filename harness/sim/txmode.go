package sim

import (
	"fmt"
	"reflect"
	"strings"

	sdkmath "cosmossdk.io/math"
	abci "github.com/cometbft/cometbft/abci/types"
	sdk "github.com/cosmos/cosmos-sdk/types"
	sdkerrors "github.com/cosmos/cosmos-sdk/types/errors"
	"github.com/cosmos/cosmos-sdk/types/tx/signing"
	authsigning "github.com/cosmos/cosmos-sdk/x/auth/signing"
)

// TX MODE (DESIGN.md section 3.4). `Sim.Deliver` (handler mode) re-implements what BaseApp.runTx/runMsgs do for
// one message: ValidateBasic, the routed handler on a branch of the deliver state that is written only on
// success, a panic discards the branch. Tx mode does not re-implement anything: the same message is wrapped in
// a real transaction, signed with the sender's key and sent through the application's own DeliverTx, i.e.
// through the tx decoder, validateBasicTxMsgs, the hub's ante handler chain, runMsgs and the SDK's own
// branching and panic recovery. The two modes must then print the same result, the same hub events and the
// same state delta for every operation; tools/txmode.py compares them.
//
// What cannot go through DeliverTx falls back to handler mode for that one operation and is counted:
//   - unkeyed:    the harness holds no key for the sender (actors that are not 20-byte secp256k1 accounts),
//   - unsignable: the message's own GetSigners() panics (corrupted or role-confused sender text, empty sender):
//                 the SDK asks the transaction for its signers in the ante handler, so such a message can never be
//                 carried by a valid transaction; handler mode nevertheless runs its ValidateBasic,
//   - notwire:    the message as built by the harness is not the message the application decodes from the wire
//                 (an empty but non-nil repeated field arrives as nil; hub ValidateBasic tells the two apart with
//                 different texts). Handler mode's input is then unreachable through DeliverTx, there is nothing
//                 to compare,
//   - notinblock: no deliver state to run on.

// TxStats counts what tx mode did.
type TxStats struct {
	Delivered int            // tx operations that went through DeliverTx
	Fallback  map[string]int // reason -> count
}

// txGasLimit is the gas limit of every transaction: the block's maximum (the ante handler refuses more), or a
// large constant when the block has none. Handler mode runs on an infinite gas meter; see classOf for the
// (so far unobserved) case of a transaction or block running out of gas.
func (s *Sim) txGasLimit() uint64 {
	if cp := s.App.GetConsensusParams(s.Ctx()); cp != nil && cp.Block != nil && cp.Block.MaxGas > 0 {
		return uint64(cp.Block.MaxGas)
	}
	return 1 << 50
}

// signerKey returns the key index of the single signer of msg, or the reason why it cannot be signed.
func (s *Sim) signerKey(msg sdk.Msg) (addr sdk.AccAddress, idx int, reason string) {
	var signers []sdk.AccAddress
	func() {
		defer func() {
			if x := recover(); x != nil {
				reason = "unsignable"
			}
		}()
		signers = msg.GetSigners()
	}()
	if reason != "" {
		return nil, 0, reason
	}
	if len(signers) != 1 || len(signers[0]) == 0 {
		return nil, 0, "unsignable"
	}
	idx, ok := s.Cfg.Keyed[fmt.Sprintf("%x", []byte(signers[0]))]
	if !ok {
		return nil, 0, "unkeyed"
	}
	return signers[0], idx, ""
}

// SignTx wraps msg in a transaction signed by key idx: SIGN_MODE_DIRECT over the application's own tx config,
// the chain identifier of the harness, the account number and the sequence the account keeper holds right now
// (deliver state), zero fee (minimum gas prices are checked in CheckTx only, which is not involved), no memo.
func (s *Sim) SignTx(msg sdk.Msg, addr sdk.AccAddress, idx int) ([]byte, error) {
	acc := s.App.AccountKeeper.GetAccount(s.Ctx(), addr)
	if acc == nil {
		return nil, fmt.Errorf("no account for keyed sender %x", []byte(addr))
	}
	priv := KeyFor(idx)
	cfg := s.App.TxConfig
	b := cfg.NewTxBuilder()
	if err := b.SetMsgs(msg); err != nil {
		return nil, err
	}
	b.SetGasLimit(s.txGasLimit())
	b.SetFeeAmount(sdk.NewCoins())
	mode := signing.SignMode_SIGN_MODE_DIRECT
	sig := signing.SignatureV2{
		PubKey:   priv.PubKey(),
		Data:     &signing.SingleSignatureData{SignMode: mode},
		Sequence: acc.GetSequence(),
	}
	// first round: the signer info (public key, mode, sequence) is part of what is signed
	if err := b.SetSignatures(sig); err != nil {
		return nil, err
	}
	signBytes, err := cfg.SignModeHandler().GetSignBytes(mode, authsigning.SignerData{
		Address:       addr.String(),
		ChainID:       ChainID,
		AccountNumber: acc.GetAccountNumber(),
		Sequence:      acc.GetSequence(),
		PubKey:        priv.PubKey(),
	}, b.GetTx())
	if err != nil {
		return nil, err
	}
	sigBz, err := priv.Sign(signBytes)
	if err != nil {
		return nil, err
	}
	sig.Data = &signing.SingleSignatureData{SignMode: mode, Signature: sigBz}
	if err := b.SetSignatures(sig); err != nil {
		return nil, err
	}
	return cfg.TxEncoder()(b.GetTx())
}

// sameValue compares a message as built with the message decoded from the wire. Unlike reflect.DeepEqual it
// looks at arbitrary-precision numbers by value (their internal limb slices may be nil or empty for zero),
// and like it, it tells a nil slice from an empty one - the one thing the wire format cannot carry.
func sameValue(a, b reflect.Value) bool {
	if a.IsValid() != b.IsValid() {
		return false
	}
	if !a.IsValid() {
		return true
	}
	if a.Type() != b.Type() {
		return false
	}
	switch a.Type() {
	case reflect.TypeOf(sdkmath.Int{}):
		x, y := a.Interface().(sdkmath.Int), b.Interface().(sdkmath.Int)
		return x.IsNil() == y.IsNil() && (x.IsNil() || x.Equal(y))
	case reflect.TypeOf(sdkmath.LegacyDec{}):
		x, y := a.Interface().(sdkmath.LegacyDec), b.Interface().(sdkmath.LegacyDec)
		return x.IsNil() == y.IsNil() && (x.IsNil() || x.Equal(y))
	}
	switch a.Kind() {
	case reflect.Ptr, reflect.Interface:
		if a.IsNil() || b.IsNil() {
			return a.IsNil() == b.IsNil()
		}
		return sameValue(a.Elem(), b.Elem())
	case reflect.Struct:
		for i := 0; i < a.NumField(); i++ {
			if a.Type().Field(i).PkgPath != "" {
				return reflect.DeepEqual(a.Interface(), b.Interface()) // unexported fields: none in the hub's messages
			}
			if !sameValue(a.Field(i), b.Field(i)) {
				return false
			}
		}
		return true
	case reflect.Slice:
		if a.IsNil() != b.IsNil() || a.Len() != b.Len() {
			return false
		}
		for i := 0; i < a.Len(); i++ {
			if !sameValue(a.Index(i), b.Index(i)) {
				return false
			}
		}
		return true
	default:
		return reflect.DeepEqual(a.Interface(), b.Interface())
	}
}

// wireStable says whether the application decodes from txBytes exactly the message the harness built.
func (s *Sim) wireStable(msg sdk.Msg, txBytes []byte) (ok bool) {
	defer func() {
		if x := recover(); x != nil {
			ok = false
		}
	}()
	tx, err := s.App.TxConfig.TxDecoder()(txBytes)
	if err != nil {
		return false
	}
	msgs := tx.GetMsgs()
	return len(msgs) == 1 && sameValue(reflect.ValueOf(msg), reflect.ValueOf(msgs[0]))
}

const runMsgsPrefix = "failed to execute message; message index: 0: "

// classOf maps the response of DeliverTx to the result classes of handler mode. cosmossdk.io/errors v1 puts
// err.Error() into the log unredacted (no debug/trace needed), so the texts are comparable:
//
//	code 0                                   accept
//	ErrPanic (runTx's recovery middleware)   reject:panic:panic:_<value>      (the stack that follows is cut off)
//	log "failed to execute message; ...: E"  reject:handler:<E>               (runMsgs wraps the handler's error)
//	gas wanted 0                             reject:validate:<log>            (runTx returned before the ante
//	                                          handler installed the transaction's gas meter, i.e. from
//	                                          validateBasicTxMsgs; reject:decode if the tx decoder refused)
//	anything else                            reject:ante:<log>                (an ante decorator refused: signature,
//	                                          sequence, gas ... - handler mode has no counterpart, the comparison
//	                                          reports it)
func classOf(res abci.ResponseDeliverTx) string {
	if res.Code == 0 {
		return "accept"
	}
	log := res.Log
	switch {
	case res.Codespace == sdkerrors.ErrPanic.Codespace() && res.Code == sdkerrors.ErrPanic.ABCICode():
		// "recovered: <value>\nstack:\n<stack>: panic"
		v := strings.TrimPrefix(log, "recovered: ")
		if i := strings.Index(v, "\nstack:\n"); i >= 0 {
			v = v[:i]
		}
		return "reject:panic:" + firstWords("panic: "+v)
	case strings.HasPrefix(log, runMsgsPrefix):
		return "reject:handler:" + firstWords(strings.TrimPrefix(log, runMsgsPrefix))
	case res.GasWanted == 0:
		if res.Codespace == sdkerrors.ErrTxDecode.Codespace() && res.Code == sdkerrors.ErrTxDecode.ABCICode() {
			return "reject:decode:" + firstWords(log)
		}
		return "reject:validate:" + firstWords(log)
	}
	return "reject:ante:" + firstWords(log)
}

// DeliverTx is Deliver in tx mode. info is the `T` line printed after the result.
func (s *Sim) DeliverTx(msg sdk.Msg, st *TxStats) (events []abci.Event, class string, info string) {
	fallback := func(reason string) ([]abci.Event, string, string) {
		st.Fallback[reason]++
		evs, class := s.Deliver(msg)
		return evs, class, "T fallback reason=" + reason
	}
	if !s.InBlock {
		return fallback("notinblock")
	}
	addr, idx, reason := s.signerKey(msg)
	if reason != "" {
		return fallback(reason)
	}
	txBytes, err := s.SignTx(msg, addr, idx)
	if err != nil {
		panic(fmt.Errorf("tx mode: cannot sign: %v", err))
	}
	if !s.wireStable(msg, txBytes) {
		return fallback("notwire")
	}
	st.Delivered++
	res := s.App.DeliverTx(abci.RequestDeliverTx{Tx: txBytes})
	return res.Events, classOf(res), fmt.Sprintf("T deliver code=%d codespace=%s gasWanted=%d gasUsed=%d", res.Code, dash(res.Codespace), res.GasWanted, res.GasUsed)
}

func dash(s string) string {
	if s == "" {
		return "-"
	}
	return s
}
