package sim

import (
	"os"
	"bufio"
	"fmt"
	"io"
	"strings"

	abci "github.com/cometbft/cometbft/abci/types"
	sdk "github.com/cosmos/cosmos-sdk/types"

	custommint "github.com/sentinel-official/hub/v12/x/mint"
)

// Runner executes a stream of operation lines against the real application and writes, per
// operation, the echo line, the result, the hub events and the canonical state dump.
type Runner struct {
	Cfg     *Config
	Sim     *Sim
	Out     *bufio.Writer
	NoDump  bool
	NoEvent bool
	// TxMode: every `tx` operation that can be signed goes through the application's DeliverTx (txmode.go)
	TxMode bool
	TxStat TxStats
	info   string // tx mode: the `T` line of the operation being emitted
	prev   []string
}

// Delta is the difference of two sorted line lists: "-line" for lines only in old, "+line" for
// lines only in cur, in merged order.
func Delta(old, cur []string) []string {
	var out []string
	i, j := 0, 0
	for i < len(old) || j < len(cur) {
		switch {
		case i >= len(old):
			out = append(out, "+"+cur[j])
			j++
		case j >= len(cur):
			out = append(out, "-"+old[i])
			i++
		case old[i] == cur[j]:
			i++
			j++
		case old[i] < cur[j]:
			out = append(out, "-"+old[i])
			i++
		default:
			out = append(out, "+"+cur[j])
			j++
		}
	}
	return out
}

func NewRunner(w io.Writer) *Runner {
	return &Runner{Cfg: &Config{Keyed: map[string]int{}}, Out: bufio.NewWriterSize(w, 1<<20), TxStat: TxStats{Fallback: map[string]int{}}}
}

func (r *Runner) emit(op *Op, result string, events []string, dump bool) {
	fmt.Fprintf(r.Out, "> %s\n", op.Raw)
	fmt.Fprintf(r.Out, "R %s\n", result)
	if r.info != "" {
		fmt.Fprintln(r.Out, r.info)
		r.info = ""
	}
	if !r.NoEvent {
		for _, e := range events {
			fmt.Fprintln(r.Out, e)
		}
	}
	if dump && !r.NoDump && r.Sim != nil {
		cur := r.Sim.Dump()
		for _, l := range Delta(r.prev, cur) {
			fmt.Fprintln(r.Out, l)
		}
		r.prev = cur
	}
	r.Out.Flush()
}

// Exec runs one operation line.
func (r *Runner) Exec(line string) error {
	line = strings.TrimSpace(line)
	if line == "" || strings.HasPrefix(line, "#") {
		return nil
	}
	op, err := ParseOp(line)
	if err != nil {
		return err
	}
	// the operation about to be executed, on stderr: if it never answers (a loop that does not end), the driver
	// that kills this process after its time limit can name the operation
	fmt.Fprintln(os.Stderr, "X "+line)
	switch op.Kind {
	case "init":
		r.Cfg.ApplyInit(op)
		return nil
	case "bal":
		r.Cfg.ApplyBal(op)
		return nil
	case "key":
		r.Cfg.ApplyKey(op)
		return nil
	case "infl":
		r.Cfg.ApplyInfl(op)
		return nil
	case "start":
		s, err := New(r.Cfg)
		if err != nil {
			return err
		}
		r.Sim = s
		r.emit(op, "accept", nil, true)
		return nil
	}
	if r.Sim == nil {
		return fmt.Errorf("operation %q before start", op.Kind)
	}
	s := r.Sim
	if s.Halted != "" && op.Kind != "dump" {
		r.emit(op, "halted", nil, false)
		return nil
	}
	switch op.Kind {
	case "begin":
		evs, halt := s.Begin(op.i64("t"))
		if halt != "" {
			r.emit(op, "halt:"+firstWords(halt), nil, false)
			return nil
		}
		r.emit(op, "accept", CanonEvents(evs), true)
	case "end":
		evs, halt := s.End()
		if halt != "" {
			r.emit(op, "halt:"+firstWords(halt), nil, false)
			return nil
		}
		r.emit(op, "accept", CanonEvents(evs), true)
		// the application hash (Merkle root over every store) after Commit: compared between
		// re-executions of the same history (C10); the model does not produce it
		fmt.Fprintf(r.Out, "A apphash=%X height=%d\n", s.App.LastCommitID().Hash, s.Height)
		r.Out.Flush()
	case "tx":
		var msg sdk.Msg
		var berr error
		func() {
			defer func() {
				if x := recover(); x != nil {
					berr = fmt.Errorf("%v", x)
				}
			}()
			msg, berr = s.BuildMsg(op)
		}()
		if berr != nil {
			return fmt.Errorf("cannot build %q: %v", op.Raw, berr)
		}
		var evs []abci.Event
		var class string
		if r.TxMode {
			evs, class, r.info = s.DeliverTx(msg, &r.TxStat)
		} else {
			evs, class = s.Deliver(msg)
		}
		r.emit(op, class, CanonEvents(evs), true)
	case "gov":
		r.emit(op, s.Gov(op), nil, true)
	case "jump":
		r.emit(op, s.Jump(op), nil, true)
	case "inspect":
		r.emit(op, s.Inspect(), nil, false)
	case "restart":
		r.emit(op, s.Restart(), nil, true)
	case "mintprobe":
		r.emit(op, "accept", s.MintProbe(op.i64("t")), false)
	case "query":
		res, lines := s.Query(op)
		r.emit(op, res, lines, false)
	case "export":
		res, lines := s.Export(op)
		r.emit(op, res, lines, false)
	case "reimport":
		res, err := r.Reimport(op)
		if err != nil {
			return err
		}
		r.emit(op, res, nil, true)
	case "dump":
		r.emit(op, "accept", nil, true)
	default:
		return fmt.Errorf("unknown operation %q", op.Kind)
	}
	return nil
}

// Inspect implements `inspect`: every listing getter of the hub keepers (the reads the generator itself makes to
// look at the state: all providers, nodes, plans with their linked nodes, subscriptions with their allocations,
// payouts, sessions, deposits, swaps) is called once; a panic inside one of them - a dangling index entry, a
// record that does not decode - is the result `halt:<text>`. The generator emits it when one of its own reads
// panicked, so that a state the implementation cannot read is a recorded failing operation, not a crash of the
// harness.
func (s *Sim) Inspect() (res string) {
	defer func() {
		if x := recover(); x != nil {
			res = "halt:" + firstWords(fmt.Sprint(x))
		}
	}()
	ctx := s.QueryCtx()
	k := &s.App.VPNKeeper
	k.Deposit.GetDeposits(ctx)
	k.Provider.GetProviders(ctx)
	k.Node.GetNodes(ctx)
	for _, p := range k.Plan.GetPlans(ctx) {
		k.Node.GetNodesForPlan(ctx, p.ID)
	}
	for _, x := range k.Subscription.GetSubscriptions(ctx) {
		k.Subscription.GetAllocationsForSubscription(ctx, x.GetID())
	}
	k.Subscription.GetPayouts(ctx)
	k.Session.GetSessions(ctx)
	s.App.SwapKeeper.GetSwaps(ctx)
	return "accept"
}

// Jump implements `jump module=plan|subscription|session n=<u64>`: the identifier counter of one module is
// moved forwards with the keeper's own SetCount (the state "as if n identifiers had been issued"); refused
// when it would move backwards. Inside a block only (deliver state), like a governance step.
func (s *Sim) Jump(o *Op) (res string) {
	if !s.InBlock {
		return "reject:jump:notinblock"
	}
	defer func() {
		if x := recover(); x != nil {
			res = "reject:panic:" + firstWords(fmt.Sprint(x))
		}
	}()
	ctx := s.Ctx()
	n := o.u64("n")
	k := &s.App.VPNKeeper
	switch o.str("module") {
	case "plan":
		if k.Plan.GetCount(ctx) > n {
			return "reject:jump"
		}
		k.Plan.SetCount(ctx, n)
	case "subscription":
		if k.Subscription.GetCount(ctx) > n {
			return "reject:jump"
		}
		k.Subscription.SetCount(ctx, n)
	case "session":
		if k.Session.GetCount(ctx) > n {
			return "reject:jump"
		}
		k.Session.SetCount(ctx, n)
	default:
		return "reject:jump:module"
	}
	return "accept"
}

// MintProbe runs the hub's inflation hook alone, in a cache context that is discarded, at block
// time t, and reports the SDK mint parameters, the minter's inflation and the remaining schedule.
func (s *Sim) MintProbe(t int64) []string {
	ctx := s.QueryCtx().WithBlockTime(unixNano(t))
	cctx, _ := ctx.CacheContext()
	before := len(s.App.CustomMintKeeper.GetInflations(cctx))
	res := ""
	func() {
		defer func() {
			if x := recover(); x != nil {
				res = "M halt:" + firstWords(fmt.Sprint(x))
			}
		}()
		custommint.BeginBlock(cctx, s.App.CustomMintKeeper)
	}()
	if res != "" {
		return []string{res}
	}
	mp := s.App.MintKeeper.GetParams(cctx)
	minter := s.App.MintKeeper.GetMinter(cctx)
	var rem []string
	for _, in := range s.App.CustomMintKeeper.GetInflations(cctx) {
		rem = append(rem, TimeNS(in.Timestamp))
	}
	remS := "-"
	if len(rem) > 0 {
		remS = strings.Join(rem, ",")
	}
	// the minter's inflation is advanced by the SDK mint module in every block; it is determined by
	// the hub's hook only when at least one entry was applied by this run of the hook
	infl := "-"
	if len(rem) < before {
		infl = minter.Inflation.BigInt().String()
	}
	return []string{fmt.Sprintf("M max=%s min=%s rate=%s infl=%s remaining=%s", mp.InflationMax.BigInt(), mp.InflationMin.BigInt(),
		mp.InflationRateChange.BigInt(), infl, remS)}
}

// Run executes every line of the reader.
func (r *Runner) Run(in io.Reader) error {
	sc := bufio.NewScanner(in)
	sc.Buffer(make([]byte, 1<<20), 1<<24)
	for sc.Scan() {
		if err := r.Exec(sc.Text()); err != nil {
			return err
		}
	}
	return sc.Err()
}
