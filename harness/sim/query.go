package sim

import (
	"context"
	"encoding/hex"
	"fmt"
	"sort"
	"strings"

	codectypes "github.com/cosmos/cosmos-sdk/codec/types"
	sdk "github.com/cosmos/cosmos-sdk/types"
	"github.com/cosmos/cosmos-sdk/types/query"
	"google.golang.org/grpc/codes"
	"google.golang.org/grpc/status"

	hubtypes "github.com/sentinel-official/hub/v12/types"
	depositkeeper "github.com/sentinel-official/hub/v12/x/deposit/keeper"
	deposittypes "github.com/sentinel-official/hub/v12/x/deposit/types"
	nodekeeper "github.com/sentinel-official/hub/v12/x/node/keeper"
	nodetypes "github.com/sentinel-official/hub/v12/x/node/types"
	plankeeper "github.com/sentinel-official/hub/v12/x/plan/keeper"
	plantypes "github.com/sentinel-official/hub/v12/x/plan/types"
	providerkeeper "github.com/sentinel-official/hub/v12/x/provider/keeper"
	providertypes "github.com/sentinel-official/hub/v12/x/provider/types"
	sessionkeeper "github.com/sentinel-official/hub/v12/x/session/keeper"
	sessiontypes "github.com/sentinel-official/hub/v12/x/session/types"
	subscriptionkeeper "github.com/sentinel-official/hub/v12/x/subscription/keeper"
	subscriptiontypes "github.com/sentinel-official/hub/v12/x/subscription/types"
	swapkeeper "github.com/sentinel-official/hub/v12/x/swap/keeper"
	swaptypes "github.com/sentinel-official/hub/v12/x/swap/types"
)

// ---------------------------------------------------------------------------------------------
// `query <kind> [addr=<hex>] [node=<hex>] [id=<n>] [sub=<n>] [hash=<hex>] [status=<n>] [key=<hex|->]
//               [offset=<n>] [limit=<n>] [total=<0|1>] [reverse=<0|1>]`
//
// Every kind calls the REAL gRPC query server of the hub, constructed exactly the way the modules
// register it (x/vpn/module.go:137-142, x/swap/module.go:108), with a real query.PageRequest.
//
// Field conventions: the address of a request is `addr` (`node` is accepted as a synonym when `addr`
// is absent); the id of a request is `id` (`sub` is a synonym when `id` is absent); absent numbers
// are 0, absent flags are false, an absent or `-` key is the nil key. `addrrole=` / `addrbad=1` work
// as in transactions (role confusion, broken checksum).
//
// Answer: result `accept` | `reject:<class>`; on accept one `Q item <record>` line per returned
// record in the returned order (the record text is exactly the text dump.go prints for the stored
// value of that record type) and, for the paged kinds, one line `Q page next=<hex|-> total=<n>`.
// ---------------------------------------------------------------------------------------------

// QueryKinds lists every paged kind, QueryGetters every single-record kind.
var QueryKinds = []string{"deposits", "providers", "nodes", "nodesForPlan", "plans", "plansForProvider", "subscriptions",
	"subscriptionsForAccount", "subscriptionsForNode", "subscriptionsForPlan", "allocations", "payouts", "payoutsForAccount",
	"payoutsForNode", "sessions", "sessionsForAccount", "sessionsForNode", "sessionsForSubscription", "sessionsForAllocation", "swaps"}

var QueryGetters = []string{"deposit", "provider", "node", "plan", "subscription", "allocation", "payout", "session", "swap"}

// lastNext remembers, per application instance and kind, the parameters and the next key of the
// most recent paged answer (read by the generator to follow a next key).
type nextRec struct {
	params string // the request's fields other than key/offset/limit/total
	next   string // hex
}

var lastNext = map[*Sim]map[string]nextRec{}

func fmtDeposit(d deposittypes.Deposit) string {
	return fmt.Sprintf("addr=%s coins=%s", addrField(d.Address), FmtCoins(d.Coins))
}

func fmtProvider(p providertypes.Provider) string {
	return fmt.Sprintf("addr=%s name=%s identity=%s website=%s desc=%s status=%d statusAt=%s", addrField(p.Address),
		hx([]byte(p.Name)), hx([]byte(p.Identity)), hx([]byte(p.Website)), hx([]byte(p.Description)), int32(p.Status), TimeNS(p.StatusAt))
}

func fmtNode(n nodetypes.Node) string {
	return fmt.Sprintf("addr=%s gb=%s hr=%s url=%s inactiveAt=%s status=%d statusAt=%s", addrField(n.Address),
		FmtCoins(n.GigabytePrices), FmtCoins(n.HourlyPrices), hx([]byte(n.RemoteURL)), TimeNS(n.InactiveAt), int32(n.Status), TimeNS(n.StatusAt))
}

func fmtPlan(p plantypes.Plan) string {
	return fmt.Sprintf("id=%d prov=%s dur=%d gb=%d prices=%s status=%d statusAt=%s", p.ID, addrField(p.ProviderAddress),
		int64(p.Duration), p.Gigabytes, FmtCoins(p.Prices), int32(p.Status), TimeNS(p.StatusAt))
}

func fmtSubscription(sub subscriptiontypes.Subscription) string {
	switch x := sub.(type) {
	case *subscriptiontypes.NodeSubscription:
		return fmt.Sprintf("kind=node id=%d addr=%s inactiveAt=%s status=%d statusAt=%s node=%s gb=%d hr=%d dep=%s", x.ID, addrField(x.Address),
			TimeNS(x.InactiveAt), int32(x.Status), TimeNS(x.StatusAt), addrField(x.NodeAddress), x.Gigabytes, x.Hours, FmtCoin(x.Deposit))
	case *subscriptiontypes.PlanSubscription:
		return fmt.Sprintf("kind=plan id=%d addr=%s inactiveAt=%s status=%d statusAt=%s plan=%d denom=%s", x.ID, addrField(x.Address),
			TimeNS(x.InactiveAt), int32(x.Status), TimeNS(x.StatusAt), x.PlanID, x.Denom)
	}
	return fmt.Sprintf("raw:%T", sub)
}

func fmtAllocation(a subscriptiontypes.Allocation) string {
	return fmt.Sprintf("id=%d addr=%s granted=%s used=%s", a.ID, addrField(a.Address), a.GrantedBytes, a.UtilisedBytes)
}

func fmtPayout(p subscriptiontypes.Payout) string {
	return fmt.Sprintf("id=%d addr=%s node=%s hours=%d price=%s nextAt=%s", p.ID, addrField(p.Address), addrField(p.NodeAddress),
		p.Hours, FmtCoin(p.Price), TimeNS(p.NextAt))
}

func fmtSession(x sessiontypes.Session) string {
	return fmt.Sprintf("id=%d sub=%d node=%s addr=%s up=%s down=%s dur=%d inactiveAt=%s status=%d statusAt=%s", x.ID, x.SubscriptionID,
		addrField(x.NodeAddress), addrField(x.Address), x.Bandwidth.Upload, x.Bandwidth.Download, int64(x.Duration),
		TimeNS(x.InactiveAt), int32(x.Status), TimeNS(x.StatusAt))
}

func fmtSwap(sw swaptypes.Swap) string {
	return fmt.Sprintf("hash=%s recv=%s amt=%s", hx(sw.TxHash), addrField(sw.Receiver), FmtCoin(sw.Amount))
}

func (s *Sim) fmtAny(a *codectypes.Any) string {
	if v, ok := a.GetCachedValue().(subscriptiontypes.Subscription); ok {
		return fmtSubscription(v)
	}
	var sub subscriptiontypes.Subscription
	if err := s.App.Codec.UnpackAny(a, &sub); err != nil {
		return "raw:" + hx(a.Value)
	}
	return fmtSubscription(sub)
}

// qreq is the parsed request line.
type qreq struct {
	o      *Op
	page   *query.PageRequest
	status hubtypes.Status
	id     uint64
}

func (r *qreq) addr(role string) string {
	if r.o.has("addr") || !r.o.has("node") {
		return r.o.addrText("addr", role)
	}
	return r.o.addrText("node", role)
}

func parseQuery(o *Op) (r *qreq, bad string) {
	defer func() {
		if x := recover(); x != nil {
			r, bad = nil, firstWords(fmt.Sprint(x))
		}
	}()
	r = &qreq{o: o, page: &query.PageRequest{}}
	if k := o.str("key"); k != "" && k != "-" {
		r.page.Key = o.bytes("key")
	}
	if o.has("offset") {
		r.page.Offset = o.u64("offset")
	}
	if o.has("limit") {
		r.page.Limit = o.u64("limit")
	}
	r.page.CountTotal = o.str("total") == "1"
	r.page.Reverse = o.str("reverse") == "1"
	if o.has("status") {
		r.status = hubtypes.Status(int32(o.i64("status")))
	}
	switch {
	case o.has("id"):
		r.id = o.u64("id")
	case o.has("sub"):
		r.id = o.u64("sub")
	}
	// decode the address / hash fields now, so that malformed hex is a request error, not a query panic
	for _, k := range []string{"addr", "node", "hash"} {
		if o.has(k) {
			_ = o.bytes(k)
		}
	}
	return r, ""
}

func queryErrClass(err error) string {
	switch status.Code(err) {
	case codes.NotFound:
		return "reject:notfound"
	case codes.InvalidArgument:
		return "reject:invalid:" + firstWords(err.Error())
	case codes.Internal:
		return "reject:internal:" + firstWords(err.Error())
	}
	return "reject:error:" + firstWords(err.Error())
}

// Query answers one `query` line from the real query servers.
func (s *Sim) Query(o *Op) (res string, lines []string) {
	r, bad := parseQuery(o)
	if bad != "" {
		return "reject:badreq:" + bad, nil
	}
	defer func() {
		if x := recover(); x != nil {
			res, lines = "reject:panic:"+firstWords(fmt.Sprint(x)), nil
		}
	}()
	items, page, paged, err := s.runQuery(o.Sub, r)
	if err != nil {
		return queryErrClass(err), nil
	}
	for _, it := range items {
		lines = append(lines, "Q item "+it)
	}
	if paged {
		var next []byte
		var total uint64
		if page != nil {
			next, total = page.NextKey, page.Total
		}
		lines = append(lines, fmt.Sprintf("Q page next=%s total=%d", hx(next), total))
		m := lastNext[s]
		if m == nil {
			m = map[string]nextRec{}
			lastNext[s] = m
		}
		if len(next) > 0 {
			m[o.Sub] = nextRec{params: queryParams(o), next: hex.EncodeToString(next)}
		} else {
			delete(m, o.Sub)
		}
	}
	return "accept", lines
}

// queryParams renders the request fields that select the listing (everything but the paging fields).
func queryParams(o *Op) string {
	var ks []string
	for k := range o.F {
		switch k {
		case "key", "offset", "limit", "total":
		default:
			ks = append(ks, k)
		}
	}
	sort.Strings(ks)
	var sb strings.Builder
	for _, k := range ks {
		sb.WriteString(" " + k + "=" + o.F[k])
	}
	return sb.String()
}

func mapStr[T any](xs []T, f func(T) string) []string {
	out := make([]string, len(xs))
	for i, x := range xs {
		out[i] = f(x)
	}
	return out
}

func (s *Sim) runQuery(kind string, r *qreq) (items []string, page *query.PageResponse, paged bool, err error) {
	var c context.Context = sdk.WrapSDKContext(s.QueryCtx())
	k := s.App.VPNKeeper
	switch kind {
	// ---- deposit
	case "deposits":
		res, err := depositkeeper.NewQueryServiceServer(k.Deposit).QueryDeposits(c, &deposittypes.QueryDepositsRequest{Pagination: r.page})
		if err != nil {
			return nil, nil, true, err
		}
		return mapStr(res.Deposits, fmtDeposit), res.Pagination, true, nil
	case "deposit":
		res, err := depositkeeper.NewQueryServiceServer(k.Deposit).QueryDeposit(c, &deposittypes.QueryDepositRequest{Address: r.addr("acc")})
		if err != nil {
			return nil, nil, false, err
		}
		return []string{fmtDeposit(res.Deposit)}, nil, false, nil

	// ---- provider
	case "providers":
		res, err := providerkeeper.NewQueryServiceServer(k.Provider).QueryProviders(c, &providertypes.QueryProvidersRequest{Status: r.status, Pagination: r.page})
		if err != nil {
			return nil, nil, true, err
		}
		return mapStr(res.Providers, fmtProvider), res.Pagination, true, nil
	case "provider":
		res, err := providerkeeper.NewQueryServiceServer(k.Provider).QueryProvider(c, &providertypes.QueryProviderRequest{Address: r.addr("prov")})
		if err != nil {
			return nil, nil, false, err
		}
		return []string{fmtProvider(res.Provider)}, nil, false, nil

	// ---- node
	case "nodes":
		res, err := nodekeeper.NewQueryServiceServer(k.Node).QueryNodes(c, &nodetypes.QueryNodesRequest{Status: r.status, Pagination: r.page})
		if err != nil {
			return nil, nil, true, err
		}
		return mapStr(res.Nodes, fmtNode), res.Pagination, true, nil
	case "nodesForPlan":
		res, err := nodekeeper.NewQueryServiceServer(k.Node).QueryNodesForPlan(c, &nodetypes.QueryNodesForPlanRequest{Id: r.id, Status: r.status, Pagination: r.page})
		if err != nil {
			return nil, nil, true, err
		}
		return mapStr(res.Nodes, fmtNode), res.Pagination, true, nil
	case "node":
		res, err := nodekeeper.NewQueryServiceServer(k.Node).QueryNode(c, &nodetypes.QueryNodeRequest{Address: r.addr("node")})
		if err != nil {
			return nil, nil, false, err
		}
		return []string{fmtNode(res.Node)}, nil, false, nil

	// ---- plan
	case "plans":
		res, err := plankeeper.NewQueryServiceServer(k.Plan).QueryPlans(c, &plantypes.QueryPlansRequest{Status: r.status, Pagination: r.page})
		if err != nil {
			return nil, nil, true, err
		}
		return mapStr(res.Plans, fmtPlan), res.Pagination, true, nil
	case "plansForProvider":
		res, err := plankeeper.NewQueryServiceServer(k.Plan).QueryPlansForProvider(c, &plantypes.QueryPlansForProviderRequest{Address: r.addr("prov"), Status: r.status, Pagination: r.page})
		if err != nil {
			return nil, nil, true, err
		}
		return mapStr(res.Plans, fmtPlan), res.Pagination, true, nil
	case "plan":
		res, err := plankeeper.NewQueryServiceServer(k.Plan).QueryPlan(c, &plantypes.QueryPlanRequest{Id: r.id})
		if err != nil {
			return nil, nil, false, err
		}
		return []string{fmtPlan(res.Plan)}, nil, false, nil

	// ---- subscription
	case "subscriptions":
		res, err := subscriptionkeeper.NewQueryServiceServer(k.Subscription).QuerySubscriptions(c, &subscriptiontypes.QuerySubscriptionsRequest{Pagination: r.page})
		if err != nil {
			return nil, nil, true, err
		}
		return mapStr(res.Subscriptions, s.fmtAny), res.Pagination, true, nil
	case "subscriptionsForAccount":
		res, err := subscriptionkeeper.NewQueryServiceServer(k.Subscription).QuerySubscriptionsForAccount(c, &subscriptiontypes.QuerySubscriptionsForAccountRequest{Address: r.addr("acc"), Pagination: r.page})
		if err != nil {
			return nil, nil, true, err
		}
		return mapStr(res.Subscriptions, s.fmtAny), res.Pagination, true, nil
	case "subscriptionsForNode":
		res, err := subscriptionkeeper.NewQueryServiceServer(k.Subscription).QuerySubscriptionsForNode(c, &subscriptiontypes.QuerySubscriptionsForNodeRequest{Address: r.addr("node"), Pagination: r.page})
		if err != nil {
			return nil, nil, true, err
		}
		return mapStr(res.Subscriptions, s.fmtAny), res.Pagination, true, nil
	case "subscriptionsForPlan":
		res, err := subscriptionkeeper.NewQueryServiceServer(k.Subscription).QuerySubscriptionsForPlan(c, &subscriptiontypes.QuerySubscriptionsForPlanRequest{Id: r.id, Pagination: r.page})
		if err != nil {
			return nil, nil, true, err
		}
		return mapStr(res.Subscriptions, s.fmtAny), res.Pagination, true, nil
	case "subscription":
		res, err := subscriptionkeeper.NewQueryServiceServer(k.Subscription).QuerySubscription(c, &subscriptiontypes.QuerySubscriptionRequest{Id: r.id})
		if err != nil {
			return nil, nil, false, err
		}
		return []string{s.fmtAny(res.Subscription)}, nil, false, nil
	case "allocations":
		res, err := subscriptionkeeper.NewQueryServiceServer(k.Subscription).QueryAllocations(c, &subscriptiontypes.QueryAllocationsRequest{Id: r.id, Pagination: r.page})
		if err != nil {
			return nil, nil, true, err
		}
		return mapStr(res.Allocations, fmtAllocation), res.Pagination, true, nil
	case "allocation":
		res, err := subscriptionkeeper.NewQueryServiceServer(k.Subscription).QueryAllocation(c, &subscriptiontypes.QueryAllocationRequest{Id: r.id, Address: r.addr("acc")})
		if err != nil {
			return nil, nil, false, err
		}
		return []string{fmtAllocation(res.Allocation)}, nil, false, nil
	case "payouts":
		res, err := subscriptionkeeper.NewQueryServiceServer(k.Subscription).QueryPayouts(c, &subscriptiontypes.QueryPayoutsRequest{Pagination: r.page})
		if err != nil {
			return nil, nil, true, err
		}
		return mapStr(res.Payouts, fmtPayout), res.Pagination, true, nil
	case "payoutsForAccount":
		res, err := subscriptionkeeper.NewQueryServiceServer(k.Subscription).QueryPayoutsForAccount(c, &subscriptiontypes.QueryPayoutsForAccountRequest{Address: r.addr("acc"), Pagination: r.page})
		if err != nil {
			return nil, nil, true, err
		}
		return mapStr(res.Payouts, fmtPayout), res.Pagination, true, nil
	case "payoutsForNode":
		res, err := subscriptionkeeper.NewQueryServiceServer(k.Subscription).QueryPayoutsForNode(c, &subscriptiontypes.QueryPayoutsForNodeRequest{Address: r.addr("node"), Pagination: r.page})
		if err != nil {
			return nil, nil, true, err
		}
		return mapStr(res.Payouts, fmtPayout), res.Pagination, true, nil
	case "payout":
		res, err := subscriptionkeeper.NewQueryServiceServer(k.Subscription).QueryPayout(c, &subscriptiontypes.QueryPayoutRequest{Id: r.id})
		if err != nil {
			return nil, nil, false, err
		}
		return []string{fmtPayout(res.Payout)}, nil, false, nil

	// ---- session
	case "sessions":
		res, err := sessionkeeper.NewQueryServiceServer(k.Session).QuerySessions(c, &sessiontypes.QuerySessionsRequest{Pagination: r.page})
		if err != nil {
			return nil, nil, true, err
		}
		return mapStr(res.Sessions, fmtSession), res.Pagination, true, nil
	case "sessionsForAccount":
		res, err := sessionkeeper.NewQueryServiceServer(k.Session).QuerySessionsForAccount(c, &sessiontypes.QuerySessionsForAccountRequest{Address: r.addr("acc"), Pagination: r.page})
		if err != nil {
			return nil, nil, true, err
		}
		return mapStr(res.Sessions, fmtSession), res.Pagination, true, nil
	case "sessionsForNode":
		res, err := sessionkeeper.NewQueryServiceServer(k.Session).QuerySessionsForNode(c, &sessiontypes.QuerySessionsForNodeRequest{Address: r.addr("node"), Pagination: r.page})
		if err != nil {
			return nil, nil, true, err
		}
		return mapStr(res.Sessions, fmtSession), res.Pagination, true, nil
	case "sessionsForSubscription":
		res, err := sessionkeeper.NewQueryServiceServer(k.Session).QuerySessionsForSubscription(c, &sessiontypes.QuerySessionsForSubscriptionRequest{Id: r.id, Pagination: r.page})
		if err != nil {
			return nil, nil, true, err
		}
		return mapStr(res.Sessions, fmtSession), res.Pagination, true, nil
	case "sessionsForAllocation":
		res, err := sessionkeeper.NewQueryServiceServer(k.Session).QuerySessionsForAllocation(c, &sessiontypes.QuerySessionsForAllocationRequest{Id: r.id, Address: r.addr("acc"), Pagination: r.page})
		if err != nil {
			return nil, nil, true, err
		}
		return mapStr(res.Sessions, fmtSession), res.Pagination, true, nil
	case "session":
		res, err := sessionkeeper.NewQueryServiceServer(k.Session).QuerySession(c, &sessiontypes.QuerySessionRequest{Id: r.id})
		if err != nil {
			return nil, nil, false, err
		}
		return []string{fmtSession(res.Session)}, nil, false, nil

	// ---- swap
	case "swaps":
		res, err := swapkeeper.NewQueryServiceServer(s.App.SwapKeeper).QuerySwaps(c, &swaptypes.QuerySwapsRequest{Pagination: r.page})
		if err != nil {
			return nil, nil, true, err
		}
		return mapStr(res.Swaps, fmtSwap), res.Pagination, true, nil
	case "swap":
		res, err := swapkeeper.NewQueryServiceServer(s.App.SwapKeeper).QuerySwap(c, &swaptypes.QuerySwapRequest{TxHash: r.o.bytes("hash")})
		if err != nil {
			return nil, nil, false, err
		}
		return []string{fmtSwap(res.Swap)}, nil, false, nil
	}
	return nil, nil, false, status.Errorf(codes.Unimplemented, "unknown query kind %s", kind)
}

// ---------------------------------------------------------------------------------------------
// generator hook
// ---------------------------------------------------------------------------------------------

// QueryOp emits one random `query` line aimed at the current state.
func (g *Gen) QueryOp() error {
	s := g.Run.Sim
	v := g.view()
	ctx := s.QueryCtx()
	k := s.App.VPNKeeper

	// address pools: every actor (they include 03 / 0303 and 20x22 / 21x22, pairs in prefix relation),
	// addresses of existing records, addresses without any record, byte-prefixes and extensions of others
	var nodeAddrs, provAddrs, accAddrs [][]byte
	for _, n := range v.nodes {
		nodeAddrs = append(nodeAddrs, n.addr)
	}
	provAddrs = append(provAddrs, v.provs...)
	for _, x := range v.subs {
		accAddrs = append(accAddrs, x.addr)
		for _, a := range x.allocs {
			accAddrs = append(accAddrs, a.addr)
		}
	}
	for _, x := range v.sess {
		accAddrs = append(accAddrs, x.addr)
	}
	for _, d := range k.Deposit.GetDeposits(ctx) {
		if a, err := sdk.AccAddressFromBech32(d.Address); err == nil {
			accAddrs = append(accAddrs, a)
		}
	}
	noRecord := [][]byte{{0x09}, {0x03, 0x03, 0x03}, []byte(strings.Repeat("\x77", 20)), {0xff}}
	addrFrom := func(pool [][]byte) []byte {
		var a []byte
		switch {
		case len(pool) > 0 && g.chance(0.7):
			a = pool[g.pick(len(pool))]
		case g.chance(0.6) && len(g.actors) > 0:
			a = g.actor()
		default:
			a = noRecord[g.pick(len(noRecord))]
		}
		switch {
		case g.chance(0.06) && len(a) > 1: // a byte-prefix of an address with records
			a = a[:len(a)-1]
		case g.chance(0.04) && len(a) < 255: // an extension
			a = append(append([]byte{}, a...), a[len(a)-1])
		}
		return a
	}
	addrField := func(pool [][]byte) string {
		if g.chance(0.02) {
			return "" // absent address
		}
		f := " addr=" + hexs(addrFrom(pool))
		if g.chance(0.02) {
			f += fmt.Sprintf(" addrrole=%s", []string{"acc", "node", "prov"}[g.pick(3)])
		}
		if g.chance(0.01) {
			f += " addrbad=1"
		}
		return f
	}
	planID := func() uint64 {
		if len(v.plans) > 0 && g.chance(0.85) {
			return v.plans[g.pick(len(v.plans))].id
		}
		return g.someID(k.Plan.GetCount(ctx))
	}
	subID := func() uint64 {
		if len(v.subs) > 0 && g.chance(0.85) {
			return v.subs[g.pick(len(v.subs))].id
		}
		return g.someID(k.Subscription.GetCount(ctx))
	}
	sessID := func() uint64 {
		if len(v.sess) > 0 && g.chance(0.85) {
			return v.sess[g.pick(len(v.sess))].id
		}
		return g.someID(k.Session.GetCount(ctx))
	}
	statusField := func() string {
		if g.chance(0.15) {
			return ""
		}
		return fmt.Sprintf(" status=%d", g.pick(4))
	}

	all := append(append([]string{}, QueryKinds...), QueryGetters...)
	var kind string
	if g.chance(0.8) {
		kind = QueryKinds[g.pick(len(QueryKinds))]
	} else {
		kind = all[g.pick(len(all))]
	}
	g.Stats["query:"+kind]++

	sel := ""
	switch kind {
	case "deposits", "subscriptions", "payouts", "sessions", "swaps":
	case "providers", "nodes", "plans":
		sel = statusField()
	case "nodesForPlan":
		sel = fmt.Sprintf(" id=%d%s", planID(), statusField())
	case "plansForProvider":
		sel = addrField(provAddrs) + statusField()
	case "subscriptionsForAccount", "payoutsForAccount", "sessionsForAccount":
		sel = addrField(accAddrs)
	case "subscriptionsForNode", "payoutsForNode", "sessionsForNode":
		sel = addrField(nodeAddrs)
	case "subscriptionsForPlan":
		sel = fmt.Sprintf(" id=%d", planID())
	case "allocations", "sessionsForSubscription":
		sel = fmt.Sprintf(" id=%d", subID())
	case "sessionsForAllocation":
		id := subID()
		pool := accAddrs
		for _, x := range v.subs {
			if x.id == id && len(x.allocs) > 0 && g.chance(0.8) {
				pool = nil
				for _, a := range x.allocs {
					pool = append(pool, a.addr)
				}
			}
		}
		sel = fmt.Sprintf(" id=%d%s", id, addrField(pool))
	case "deposit":
		sel = addrField(accAddrs)
	case "provider":
		sel = addrField(provAddrs)
	case "node":
		sel = addrField(nodeAddrs)
	case "plan":
		sel = fmt.Sprintf(" id=%d", planID())
	case "subscription", "payout":
		sel = fmt.Sprintf(" id=%d", subID())
	case "allocation":
		id := subID()
		pool := accAddrs
		for _, x := range v.subs {
			if x.id == id && len(x.allocs) > 0 && g.chance(0.8) {
				pool = nil
				for _, a := range x.allocs {
					pool = append(pool, a.addr)
				}
			}
		}
		sel = fmt.Sprintf(" id=%d%s", id, addrField(pool))
	case "session":
		sel = fmt.Sprintf(" id=%d", sessID())
	case "swap":
		hash := make([]byte, 32)
		swaps := s.App.SwapKeeper.GetSwaps(ctx)
		if len(swaps) > 0 && g.chance(0.7) {
			hash = append([]byte{}, swaps[g.pick(len(swaps))].TxHash...)
		} else {
			hash[31] = byte(g.pick(6))
		}
		switch {
		case g.chance(0.1): // BytesToHash left-pads a short hash …
			for len(hash) > 1 && hash[0] == 0 {
				hash = hash[1:]
			}
		case g.chance(0.05): // … and keeps the last 32 bytes of a long one
			hash = append([]byte{0xaa}, hash...)
		}
		sel = " hash=" + hexs(hash)
	}

	paging := ""
	isPaged := false
	for _, x := range QueryKinds {
		if x == kind {
			isPaged = true
		}
	}
	if isPaged {
		limit := []int{1, 2, 3, 100, 0}[g.pick(5)]
		offset := []int{0, 0, 0, 1, 2}[g.pick(5)]
		key := ""
		if rec, ok := lastNext[s][kind]; ok && g.chance(0.6) {
			// follow the next key of the previous answer of this kind: mostly with the same
			// selection (a client paging through), sometimes with a fresh one (a stale key)
			key = rec.next
			if g.chance(0.85) {
				sel = rec.params
			}
			offset = 0
		} else if g.chance(0.04) {
			key = []string{"00", "ff", "0000000000000001", "01", "14", "0103"}[g.pick(6)]
			offset = 0
		}
		if key != "" && g.chance(0.03) {
			offset = 1 // both key and offset: the paginator refuses
		}
		if key != "" {
			paging += " key=" + key
		}
		if offset != 0 || g.chance(0.2) {
			paging += fmt.Sprintf(" offset=%d", offset)
		}
		paging += fmt.Sprintf(" limit=%d", limit)
		if g.chance(0.4) {
			paging += " total=1"
		}
		if strings.Contains(sel, " reverse=") {
			// a followed key keeps the direction of the listing it came from
		} else if g.chance(0.25) {
			paging += " reverse=1"
		}
	}
	return g.line("query %s%s%s", kind, sel, paging)
}
