package sim

import (
	"fmt"
	"math/rand"
	"reflect"
	"time"

	sdkmath "cosmossdk.io/math"
	sdk "github.com/cosmos/cosmos-sdk/types"

	nodetypes "github.com/sentinel-official/hub/v12/x/node/types"
	providertypes "github.com/sentinel-official/hub/v12/x/provider/types"
	sessiontypes "github.com/sentinel-official/hub/v12/x/session/types"
	subscriptiontypes "github.com/sentinel-official/hub/v12/x/subscription/types"
	swaptypes "github.com/sentinel-official/hub/v12/x/swap/types"
)

// ParamRoundTrip (C19, the parameter-store channel): every hub parameter set, with every field
// given a value distinct from every other field's, is written with the keeper's SetParams (the
// ParamSetPairs mapping, one amino-JSON value per key) and read back with GetParams.  Returns one
// line per case, `prt <module> ok` or `prt <module> MISMATCH wrote=… read=…`.
func ParamRoundTrip(seed int64, n int) ([]string, error) {
	r := rand.New(rand.NewSource(seed))
	cfg := &Config{
		Time: 1700000000e9, ProviderDeposit: sdk.NewInt64Coin("udvpn", 1), ProviderShare: sdkmath.LegacyNewDecWithPrec(1, 1),
		NodeDeposit: sdk.NewInt64Coin("udvpn", 1), NodeActiveDuration: time.Hour, MaxSubGB: 10, MinSubGB: 1, MaxSubHr: 10, MinSubHr: 1,
		NodeShare: sdkmath.LegacyNewDecWithPrec(1, 1), SubDelay: 2 * time.Minute, SessDelay: time.Minute,
		SwapEnabled: true, SwapDenom: "udvpn", ApproveBy: []byte{1}, Keyed: map[string]int{},
	}
	s, err := New(cfg)
	if err != nil {
		return nil, err
	}
	defer s.Close()
	ctx := s.QueryCtx()
	denoms := []string{"aaa", "udvpn", "zzz"}
	coins := func(lo int64) sdk.Coins {
		var cs sdk.Coins
		for _, d := range denoms {
			if r.Intn(3) > 0 {
				cs = cs.Add(sdk.NewInt64Coin(d, lo+r.Int63n(1000)))
			}
		}
		return cs
	}
	dec := func() sdkmath.LegacyDec { return sdkmath.LegacyNewDecWithPrec(r.Int63n(1e18), 18) }
	var out []string
	line := func(mod string, wrote, read interface{}) {
		if reflect.DeepEqual(wrote, read) || fmt.Sprint(wrote) == fmt.Sprint(read) {
			out = append(out, "prt "+mod+" ok")
		} else {
			out = append(out, fmt.Sprintf("prt %s MISMATCH wrote=%v read=%v", mod, wrote, read))
		}
	}
	k := s.App.VPNKeeper
	for i := 0; i < n; i++ {
		pp := providertypes.Params{Deposit: sdk.NewInt64Coin(denoms[r.Intn(3)], r.Int63n(1e6)), StakingShare: dec()}
		k.Provider.SetParams(ctx, pp)
		line("provider", pp, k.Provider.GetParams(ctx))

		minGB, minHr := coins(1), coins(1)
		np := nodetypes.NewParams(sdk.NewInt64Coin(denoms[r.Intn(3)], r.Int63n(1e6)), time.Duration(1+r.Int63n(1e15)),
			coins(100000), minGB, coins(300000), minHr, 100+r.Int63n(100), 1+r.Int63n(50), 300+r.Int63n(100), 1+r.Int63n(50), dec())
		k.Node.SetParams(ctx, np)
		line("node", np, k.Node.GetParams(ctx))

		sp := subscriptiontypes.Params{StatusChangeDelay: time.Duration(1 + r.Int63n(1e15))}
		k.Subscription.SetParams(ctx, sp)
		line("subscription", sp, k.Subscription.GetParams(ctx))

		ep := sessiontypes.Params{StatusChangeDelay: time.Duration(1 + r.Int63n(1e15)), ProofVerificationEnabled: r.Intn(2) == 0}
		k.Session.SetParams(ctx, ep)
		line("session", ep, k.Session.GetParams(ctx))

		wp := swaptypes.Params{SwapEnabled: r.Intn(2) == 0, SwapDenom: denoms[r.Intn(3)], ApproveBy: sdk.AccAddress([]byte{byte(1 + r.Intn(200)), 2, 3}).String()}
		s.App.SwapKeeper.SetParams(ctx, wp)
		line("swap", wp, s.App.SwapKeeper.GetParams(ctx))
	}
	return out, nil
}
