package sim

import (
	"bytes"
	"encoding/hex"
	"fmt"
	"sort"
	"strings"

	"github.com/cosmos/cosmos-sdk/types/bech32"

	sdk "github.com/cosmos/cosmos-sdk/types"
	protobuf "github.com/gogo/protobuf/types"

	deposittypes "github.com/sentinel-official/hub/v12/x/deposit/types"
	customminttypes "github.com/sentinel-official/hub/v12/x/mint/types"
	nodetypes "github.com/sentinel-official/hub/v12/x/node/types"
	plantypes "github.com/sentinel-official/hub/v12/x/plan/types"
	providertypes "github.com/sentinel-official/hub/v12/x/provider/types"
	sessiontypes "github.com/sentinel-official/hub/v12/x/session/types"
	subscriptiontypes "github.com/sentinel-official/hub/v12/x/subscription/types"
	swaptypes "github.com/sentinel-official/hub/v12/x/swap/types"
	vpntypes "github.com/sentinel-official/hub/v12/x/vpn/types"
)

func hx(b []byte) string {
	if len(b) == 0 {
		return "-"
	}
	return hex.EncodeToString(b)
}

// addrField renders a stored bech32 string as role:hex.
func addrField(s string) string {
	if s == "" {
		return "-"
	}
	hrp, b, err := bech32.DecodeAndConvert(s)
	if err != nil {
		return "bad:" + hex.EncodeToString([]byte(s))
	}
	for role, p := range rolePrefix {
		if p == hrp {
			return role + ":" + hex.EncodeToString(b)
		}
	}
	return "bad:" + hex.EncodeToString([]byte(s))
}

// Dump returns the canonical observable state: every key/value of the hub stores (values decoded
// with the repo's codec and printed field by field), tracked bank balances, supply, SDK mint
// parameters and all hub parameters. Lines are sorted.
func (s *Sim) Dump() []string {
	ctx := s.QueryCtx()
	cdc := s.App.Codec
	var out []string

	// vpn store: "<module>/" + key
	st := ctx.KVStore(s.App.KV(vpntypes.StoreKey))
	it := st.Iterator(nil, nil)
	for ; it.Valid(); it.Next() {
		k, v := it.Key(), it.Value()
		i := bytes.IndexByte(k, '/')
		if i < 0 {
			out = append(out, fmt.Sprintf("S vpn ? %s %s", hx(k), hx(v)))
			continue
		}
		mod, key := string(k[:i]), k[i+1:]
		out = append(out, fmt.Sprintf("S vpn %s %s %s", mod, hx(key), s.safeDecodeVPN(mod, key, v)))
	}
	it.Close()

	st = ctx.KVStore(s.App.KV(swaptypes.StoreKey))
	it = st.Iterator(nil, nil)
	for ; it.Valid(); it.Next() {
		var sw swaptypes.Swap
		val := hx(it.Value())
		if err := cdc.Unmarshal(it.Value(), &sw); err == nil {
			val = fmt.Sprintf("hash=%s recv=%s amt=%s", hx(sw.TxHash), addrField(sw.Receiver), FmtCoin(sw.Amount))
		}
		out = append(out, fmt.Sprintf("S swap %s %s", hx(it.Key()), val))
	}
	it.Close()

	st = ctx.KVStore(s.App.KV(customminttypes.StoreKey))
	it = st.Iterator(nil, nil)
	for ; it.Valid(); it.Next() {
		var in customminttypes.Inflation
		val := hx(it.Value())
		if err := cdc.Unmarshal(it.Value(), &in); err == nil {
			val = fmt.Sprintf("ts=%s max=%s min=%s rate=%s", TimeNS(in.Timestamp), in.Max.BigInt(), in.Min.BigInt(), in.RateChange.BigInt())
		}
		out = append(out, fmt.Sprintf("S custommint %s %s", hx(it.Key()), val))
	}
	it.Close()

	// bank: every account, tracked denominations, non-zero only
	trackedDenom := map[string]bool{}
	for _, d := range s.Denoms {
		trackedDenom[d] = true
	}
	s.App.BankKeeper.IterateAllBalances(ctx, func(a sdk.AccAddress, c sdk.Coin) bool {
		if trackedDenom[c.Denom] && !c.Amount.IsZero() {
			out = append(out, fmt.Sprintf("S bank %s %s %s", hx(a), c.Denom, c.Amount))
		}
		return false
	})
	for _, d := range s.Denoms {
		sup := s.App.BankKeeper.GetSupply(ctx, d)
		if !sup.Amount.IsZero() {
			out = append(out, fmt.Sprintf("S supply %s %s", d, sup.Amount))
		}
	}

	mp := s.App.MintKeeper.GetParams(ctx)
	minter := s.App.MintKeeper.GetMinter(ctx)
	out = append(out, fmt.Sprintf("S sdkmint max=%s min=%s rate=%s", mp.InflationMax.BigInt(), mp.InflationMin.BigInt(), mp.InflationRateChange.BigInt()))
	_ = minter // minter.Inflation is advanced by the SDK mint module every block; compared only right after the hook (see mint probe)

	out = append(out, s.dumpParams(ctx)...)
	sort.Strings(out)
	return out
}

func (s *Sim) dumpParams(ctx sdk.Context) []string {
	var out []string
	pp := s.App.VPNKeeper.Provider.GetParams(ctx)
	out = append(out, fmt.Sprintf("S param provider deposit=%s share=%s", FmtCoin(pp.Deposit), pp.StakingShare.BigInt()))
	np := s.App.VPNKeeper.Node.GetParams(ctx)
	out = append(out, fmt.Sprintf("S param node deposit=%s activeDur=%d maxGB=%s minGB=%s maxHr=%s minHr=%s maxSubGB=%d minSubGB=%d maxSubHr=%d minSubHr=%d share=%s",
		FmtCoin(np.Deposit), int64(np.ActiveDuration), FmtCoins(np.MaxGigabytePrices), FmtCoins(np.MinGigabytePrices),
		FmtCoins(np.MaxHourlyPrices), FmtCoins(np.MinHourlyPrices), np.MaxSubscriptionGigabytes, np.MinSubscriptionGigabytes,
		np.MaxSubscriptionHours, np.MinSubscriptionHours, np.StakingShare.BigInt()))
	sp := s.App.VPNKeeper.Subscription.GetParams(ctx)
	out = append(out, fmt.Sprintf("S param subscription delay=%d", int64(sp.StatusChangeDelay)))
	ep := s.App.VPNKeeper.Session.GetParams(ctx)
	out = append(out, fmt.Sprintf("S param session delay=%d proof=%s", int64(ep.StatusChangeDelay), b01(ep.ProofVerificationEnabled)))
	wp := s.App.SwapKeeper.GetParams(ctx)
	out = append(out, fmt.Sprintf("S param swap on=%s denom=%s approveBy=%s", b01(wp.SwapEnabled), wp.SwapDenom, addrField(wp.ApproveBy)))
	return out
}

func b01(b bool) string {
	if b {
		return "1"
	}
	return "0"
}

// safeDecodeVPN is decodeVPN with a panic of the repository's own decoding code (an address text that does not
// parse, a value that is not the expected message) rendered as `undecodable:<hex>` instead of crashing the harness:
// the line then differs from the model's and is reported as a state disagreement.
func (s *Sim) safeDecodeVPN(mod string, key, v []byte) (res string) {
	defer func() {
		if x := recover(); x != nil {
			res = "undecodable:" + hx(v)
		}
	}()
	return s.decodeVPN(mod, key, v)
}

func (s *Sim) decodeVPN(mod string, key, v []byte) string {
	cdc := s.App.Codec
	idx := func() string {
		var bv protobuf.BoolValue
		if err := cdc.Unmarshal(v, &bv); err == nil && bv.Value {
			return "1"
		}
		return "raw:" + hx(v)
	}
	count := func() string {
		var c protobuf.UInt64Value
		if err := cdc.Unmarshal(v, &c); err == nil {
			return fmt.Sprintf("n=%d", c.Value)
		}
		return "raw:" + hx(v)
	}
	if len(key) == 0 {
		return "raw:" + hx(v)
	}
	switch mod {
	case deposittypes.ModuleName:
		if key[0] == 0x10 {
			var d deposittypes.Deposit
			if err := cdc.Unmarshal(v, &d); err == nil {
				return fmt.Sprintf("addr=%s coins=%s", addrField(d.Address), FmtCoins(d.Coins))
			}
		}
	case providertypes.ModuleName:
		if key[0] == 0x10 {
			var p providertypes.Provider
			if err := cdc.Unmarshal(v, &p); err == nil {
				return fmt.Sprintf("addr=%s name=%s identity=%s website=%s desc=%s status=%d statusAt=%s", addrField(p.Address),
					hx([]byte(p.Name)), hx([]byte(p.Identity)), hx([]byte(p.Website)), hx([]byte(p.Description)), int32(p.Status), TimeNS(p.StatusAt))
			}
		}
	case nodetypes.ModuleName:
		switch key[0] {
		case 0x10:
			var n nodetypes.Node
			if err := cdc.Unmarshal(v, &n); err == nil {
				return fmt.Sprintf("addr=%s gb=%s hr=%s url=%s inactiveAt=%s status=%d statusAt=%s", addrField(n.Address),
					FmtCoins(n.GigabytePrices), FmtCoins(n.HourlyPrices), hx([]byte(n.RemoteURL)), TimeNS(n.InactiveAt), int32(n.Status), TimeNS(n.StatusAt))
			}
		case 0x11, 0x12:
			return idx()
		}
	case plantypes.ModuleName:
		switch key[0] {
		case 0x00:
			return count()
		case 0x10:
			var p plantypes.Plan
			if err := cdc.Unmarshal(v, &p); err == nil {
				return fmt.Sprintf("id=%d prov=%s dur=%d gb=%d prices=%s status=%d statusAt=%s", p.ID, addrField(p.ProviderAddress),
					int64(p.Duration), p.Gigabytes, FmtCoins(p.Prices), int32(p.Status), TimeNS(p.StatusAt))
			}
		case 0x11:
			return idx()
		}
	case subscriptiontypes.ModuleName:
		switch key[0] {
		case 0x00:
			return count()
		case 0x10:
			var sub subscriptiontypes.Subscription
			if err := cdc.UnmarshalInterface(v, &sub); err == nil {
				switch x := sub.(type) {
				case *subscriptiontypes.NodeSubscription:
					return fmt.Sprintf("kind=node id=%d addr=%s inactiveAt=%s status=%d statusAt=%s node=%s gb=%d hr=%d dep=%s", x.ID, addrField(x.Address),
						TimeNS(x.InactiveAt), int32(x.Status), TimeNS(x.StatusAt), addrField(x.NodeAddress), x.Gigabytes, x.Hours, FmtCoin(x.Deposit))
				case *subscriptiontypes.PlanSubscription:
					return fmt.Sprintf("kind=plan id=%d addr=%s inactiveAt=%s status=%d statusAt=%s plan=%d denom=%s", x.ID, addrField(x.Address),
						TimeNS(x.InactiveAt), int32(x.Status), TimeNS(x.StatusAt), x.PlanID, x.Denom)
				}
			}
		case 0x11, 0x12, 0x13, 0x14, 0x31, 0x32, 0x33, 0x34:
			return idx()
		case 0x20:
			var a subscriptiontypes.Allocation
			if err := cdc.Unmarshal(v, &a); err == nil {
				return fmt.Sprintf("id=%d addr=%s granted=%s used=%s", a.ID, addrField(a.Address), a.GrantedBytes, a.UtilisedBytes)
			}
		case 0x30:
			var p subscriptiontypes.Payout
			if err := cdc.Unmarshal(v, &p); err == nil {
				return fmt.Sprintf("id=%d addr=%s node=%s hours=%d price=%s nextAt=%s", p.ID, addrField(p.Address), addrField(p.NodeAddress),
					p.Hours, FmtCoin(p.Price), TimeNS(p.NextAt))
			}
		}
	case sessiontypes.ModuleName:
		switch key[0] {
		case 0x00:
			return count()
		case 0x10:
			var x sessiontypes.Session
			if err := cdc.Unmarshal(v, &x); err == nil {
				return fmt.Sprintf("id=%d sub=%d node=%s addr=%s up=%s down=%s dur=%d inactiveAt=%s status=%d statusAt=%s", x.ID, x.SubscriptionID,
					addrField(x.NodeAddress), addrField(x.Address), x.Bandwidth.Upload, x.Bandwidth.Download, int64(x.Duration),
					TimeNS(x.InactiveAt), int32(x.Status), TimeNS(x.StatusAt))
			}
		case 0x11, 0x12, 0x13, 0x14, 0x15:
			return idx()
		}
	}
	return "raw:" + hx(v)
}

// Digest is a short summary used in logs.
func Digest(lines []string) string {
	return fmt.Sprintf("%d lines, %d bytes", len(lines), len(strings.Join(lines, "\n")))
}
