module verif/harness

go 1.21

require (
	cosmossdk.io/math v1.3.0
	github.com/cometbft/cometbft v0.37.4
	github.com/cometbft/cometbft-db v0.11.0
	github.com/cosmos/cosmos-sdk v0.47.10
	github.com/gogo/protobuf v1.3.2
	github.com/sentinel-official/hub/v12 v12.0.0
	google.golang.org/grpc v1.61.0
)

require (
	cloud.google.com/go v0.111.0 // indirect
	cloud.google.com/go/compute/metadata v0.2.3 // indirect
	cloud.google.com/go/iam v1.1.5 // indirect
	cloud.google.com/go/storage v1.30.1 // indirect
	cosmossdk.io/api v0.3.1 // indirect
	cosmossdk.io/core v0.5.1 // indirect
	cosmossdk.io/depinject v1.0.0-alpha.4 // indirect
	cosmossdk.io/errors v1.0.1 // indirect
	cosmossdk.io/log v1.3.1 // indirect
	cosmossdk.io/tools/rosetta v0.2.1 // indirect
	filippo.io/edwards25519 v1.0.0 // indirect
	github.com/99designs/keyring v1.2.1 // indirect
	github.com/ChainSafe/go-schnorrkel v1.0.0 // indirect
	github.com/CosmWasm/wasmd v0.45.0 // indirect
	github.com/CosmWasm/wasmvm v1.5.0 // indirect
	github.com/armon/go-metrics v0.4.1 // indirect
	github.com/aws/aws-sdk-go v1.44.203 // indirect
	github.com/beorn7/perks v1.0.1 // indirect
	github.com/bgentry/go-netrc v0.0.0-20140422174119-9fd32a8b3d3d // indirect
	github.com/bgentry/speakeasy v0.1.1-0.20220910012023-760eaf8b6816 // indirect
	github.com/btcsuite/btcd/btcec/v2 v2.3.2 // indirect
	github.com/cenkalti/backoff/v4 v4.1.3 // indirect
	github.com/cespare/xxhash/v2 v2.2.0 // indirect
	github.com/chzyer/readline v1.5.1 // indirect
	github.com/cockroachdb/apd/v2 v2.0.2 // indirect
	github.com/cockroachdb/errors v1.11.1 // indirect
	github.com/cockroachdb/logtags v0.0.0-20230118201751-21c54148d20b // indirect
	github.com/cockroachdb/redact v1.1.5 // indirect
	github.com/coinbase/rosetta-sdk-go/types v1.0.0 // indirect
	github.com/confio/ics23/go v0.9.0 // indirect
	github.com/cosmos/btcutil v1.0.5 // indirect
	github.com/cosmos/cosmos-proto v1.0.0-beta.4 // indirect
	github.com/cosmos/go-bip39 v1.0.0 // indirect
	github.com/cosmos/gogogateway v1.2.0 // indirect
	github.com/cosmos/gogoproto v1.4.10 // indirect
	github.com/cosmos/iavl v0.20.1 // indirect
	github.com/cosmos/ibc-go/v7 v7.3.2 // indirect
	github.com/cosmos/ics23/go v0.10.0 // indirect
	github.com/cosmos/rosetta-sdk-go v0.10.0 // indirect
	github.com/creachadair/taskgroup v0.4.2 // indirect
	github.com/davecgh/go-spew v1.1.1 // indirect
	github.com/decred/dcrd/dcrec/secp256k1/v4 v4.1.0 // indirect
	github.com/desertbit/timer v0.0.0-20180107155436-c41aec40b27f // indirect
	github.com/docker/distribution v2.8.2+incompatible // indirect
	github.com/dvsekhvalnov/jose2go v1.6.0 // indirect
	github.com/felixge/httpsnoop v1.0.2 // indirect
	github.com/fsnotify/fsnotify v1.6.0 // indirect
	github.com/getsentry/sentry-go v0.23.0 // indirect
	github.com/go-kit/kit v0.12.0 // indirect
	github.com/go-kit/log v0.2.1 // indirect
	github.com/go-logfmt/logfmt v0.6.0 // indirect
	github.com/go-logr/logr v1.2.4 // indirect
	github.com/go-logr/stdr v1.2.2 // indirect
	github.com/godbus/dbus v0.0.0-20190726142602-4481cbc300e2 // indirect
	github.com/gogo/googleapis v1.4.1 // indirect
	github.com/golang/groupcache v0.0.0-20210331224755-41bb18bfe9da // indirect
	github.com/golang/mock v1.6.0 // indirect
	github.com/golang/protobuf v1.5.3 // indirect
	github.com/golang/snappy v0.0.4 // indirect
	github.com/google/btree v1.1.2 // indirect
	github.com/google/go-cmp v0.6.0 // indirect
	github.com/google/gofuzz v1.2.0 // indirect
	github.com/google/orderedcode v0.0.1 // indirect
	github.com/google/s2a-go v0.1.7 // indirect
	github.com/google/uuid v1.4.0 // indirect
	github.com/googleapis/enterprise-certificate-proxy v0.3.2 // indirect
	github.com/googleapis/gax-go/v2 v2.12.0 // indirect
	github.com/gorilla/handlers v1.5.1 // indirect
	github.com/gorilla/mux v1.8.0 // indirect
	github.com/gorilla/websocket v1.5.0 // indirect
	github.com/grpc-ecosystem/go-grpc-middleware v1.3.0 // indirect
	github.com/grpc-ecosystem/grpc-gateway v1.16.0 // indirect
	github.com/gsterjov/go-libsecret v0.0.0-20161001094733-a6f4afe4910c // indirect
	github.com/gtank/merlin v0.1.1 // indirect
	github.com/gtank/ristretto255 v0.1.2 // indirect
	github.com/hashicorp/go-cleanhttp v0.5.2 // indirect
	github.com/hashicorp/go-getter v1.7.1 // indirect
	github.com/hashicorp/go-immutable-radix v1.3.1 // indirect
	github.com/hashicorp/go-safetemp v1.0.0 // indirect
	github.com/hashicorp/go-version v1.6.0 // indirect
	github.com/hashicorp/golang-lru v0.5.5-0.20210104140557-80c98217689d // indirect
	github.com/hashicorp/hcl v1.0.0 // indirect
	github.com/hdevalence/ed25519consensus v0.1.0 // indirect
	github.com/huandu/skiplist v1.2.0 // indirect
	github.com/improbable-eng/grpc-web v0.15.0 // indirect
	github.com/jmespath/go-jmespath v0.4.0 // indirect
	github.com/klauspost/compress v1.16.7 // indirect
	github.com/kr/pretty v0.3.1 // indirect
	github.com/kr/text v0.2.0 // indirect
	github.com/lib/pq v1.10.7 // indirect
	github.com/libp2p/go-buffer-pool v0.1.0 // indirect
	github.com/magiconair/properties v1.8.7 // indirect
	github.com/manifoldco/promptui v0.9.0 // indirect
	github.com/mattn/go-colorable v0.1.13 // indirect
	github.com/mattn/go-isatty v0.0.20 // indirect
	github.com/matttproud/golang_protobuf_extensions/v2 v2.0.0 // indirect
	github.com/mimoo/StrobeGo v0.0.0-20210601165009-122bf33a46e0 // indirect
	github.com/minio/highwayhash v1.0.2 // indirect
	github.com/mitchellh/go-homedir v1.1.0 // indirect
	github.com/mitchellh/go-testing-interface v1.14.1 // indirect
	github.com/mitchellh/mapstructure v1.5.0 // indirect
	github.com/mtibben/percent v0.2.1 // indirect
	github.com/opencontainers/go-digest v1.0.0 // indirect
	github.com/pelletier/go-toml/v2 v2.0.8 // indirect
	github.com/pkg/errors v0.9.1 // indirect
	github.com/pmezard/go-difflib v1.0.0 // indirect
	github.com/prometheus/client_golang v1.18.0 // indirect
	github.com/prometheus/client_model v0.5.0 // indirect
	github.com/prometheus/common v0.45.0 // indirect
	github.com/prometheus/procfs v0.12.0 // indirect
	github.com/rakyll/statik v0.1.7 // indirect
	github.com/rcrowley/go-metrics v0.0.0-20201227073835-cf1acfcdf475 // indirect
	github.com/rogpeppe/go-internal v1.11.0 // indirect
	github.com/rs/cors v1.8.3 // indirect
	github.com/rs/zerolog v1.32.0 // indirect
	github.com/spf13/afero v1.9.5 // indirect
	github.com/spf13/cast v1.6.0 // indirect
	github.com/spf13/cobra v1.8.0 // indirect
	github.com/spf13/jwalterweatherman v1.1.0 // indirect
	github.com/spf13/pflag v1.0.5 // indirect
	github.com/spf13/viper v1.16.0 // indirect
	github.com/stretchr/testify v1.9.0 // indirect
	github.com/subosito/gotenv v1.4.2 // indirect
	github.com/syndtr/goleveldb v1.0.1-0.20220721030215-126854af5e6d // indirect
	github.com/tendermint/go-amino v0.16.0 // indirect
	github.com/tidwall/btree v1.6.0 // indirect
	github.com/ulikunitz/xz v0.5.11 // indirect
	go.opencensus.io v0.24.0 // indirect
	go.opentelemetry.io/otel v1.19.0 // indirect
	go.opentelemetry.io/otel/metric v1.19.0 // indirect
	go.opentelemetry.io/otel/trace v1.19.0 // indirect
	golang.org/x/crypto v0.17.0 // indirect
	golang.org/x/exp v0.0.0-20230711153332-06a737ee72cb // indirect
	golang.org/x/net v0.19.0 // indirect
	golang.org/x/oauth2 v0.14.0 // indirect
	golang.org/x/sync v0.5.0 // indirect
	golang.org/x/sys v0.16.0 // indirect
	golang.org/x/term v0.15.0 // indirect
	golang.org/x/text v0.14.0 // indirect
	google.golang.org/api v0.149.0 // indirect
	google.golang.org/genproto v0.0.0-20240102182953-50ed04b92917 // indirect
	google.golang.org/genproto/googleapis/api v0.0.0-20231212172506-995d672761c0 // indirect
	google.golang.org/genproto/googleapis/rpc v0.0.0-20240108191215-35c7eff3a6b1 // indirect
	google.golang.org/protobuf v1.32.0 // indirect
	gopkg.in/ini.v1 v1.67.0 // indirect
	gopkg.in/yaml.v2 v2.4.0 // indirect
	gopkg.in/yaml.v3 v3.0.1 // indirect
	nhooyr.io/websocket v1.8.6 // indirect
	pgregory.net/rapid v1.1.0 // indirect
	sigs.k8s.io/yaml v1.4.0 // indirect
)

replace github.com/sentinel-official/hub/v12 => /repo

replace (
	github.com/99designs/keyring => github.com/cosmos/keyring v1.2.0
	github.com/syndtr/goleveldb => github.com/syndtr/goleveldb v1.0.1-0.20210819022825-2ae1ddf74ef7
	golang.org/x/exp => golang.org/x/exp v0.0.0-20230711153332-06a737ee72cb
	pgregory.net/rapid => pgregory.net/rapid v0.5.5
)
