#!/usr/bin/env python3
"""Single entry point of the verification machinery (DESIGN.md §4).

  python3 check.py --setup
  python3 check.py --property C06 --tier quick|thorough
  python3 check.py --property C06 --replay replays/C06-....json

Every check: (1) regenerate lean/Hub/Generated from /repo (T-gen), (2) lake build the property's
theorems and the model driver, (3) audit axioms and forbidden constructs, (4) rebuild the harness
against /repo's working tree and run the correspondence check (T-corr) on seeded histories,
(5) evaluate the monitors, (6) replay known findings, (7) write evidence/<id>.json.
Exit 0 = held on everything explored; exit 1 + VIOLATION line = violation; exit 2 = machinery broken.
"""
import argparse, fcntl, glob, hashlib, json, os, re, shutil, subprocess, sys, time

ROOT = os.path.dirname(os.path.abspath(__file__))
REPO = os.environ.get('VERIF_REPO', '/repo')
LEAN = os.path.join(ROOT, 'lean')
HARNESS = os.path.join(ROOT, 'harness')
TRANSLATOR = os.path.join(ROOT, 'translator')
CACHE = os.path.join(ROOT, '.cache')
BIN = os.path.join(HARNESS, 'bin')
GOENV = dict(os.environ, GOFLAGS='-mod=mod', GOPROXY='off', GOSUMDB='off', GOTOOLCHAIN='local', CGO_ENABLED=os.environ.get('CGO_ENABLED', '1'))
ALLOWED_AXIOMS = {'propext', 'Classical.choice', 'Quot.sound'}
FORBIDDEN = re.compile(r'sorry|\badmit\b|^axiom |native_decide|bv_decide|implemented_by|unsafe |maxHeartbeats 0', re.M)

sys.path.insert(0, os.path.join(ROOT, 'tools'))
import compare as cmp  # noqa: E402
from propdefs import PROPS  # noqa: E402


class Broken(Exception):
    """The machinery itself failed (exit 2)."""


def log(*a):
    print('[check]', *a, file=sys.stderr, flush=True)


def run(cmd, cwd=None, env=None, timeout=None, check=False, inp=None):
    p = subprocess.run(cmd, cwd=cwd, env=env, stdout=subprocess.PIPE, stderr=subprocess.PIPE, timeout=timeout, input=inp)
    if check and p.returncode != 0:
        raise Broken('%s failed (%d): %s' % (' '.join(cmd), p.returncode, (p.stderr or p.stdout).decode(errors='replace')[-2000:]))
    return p


class Lock:
    def __init__(self, name):
        os.makedirs(CACHE, exist_ok=True)
        self.path = os.path.join(CACHE, name + '.lock')

    def __enter__(self):
        self.f = open(self.path, 'w')
        fcntl.flock(self.f, fcntl.LOCK_EX)

    def __exit__(self, *a):
        fcntl.flock(self.f, fcntl.LOCK_UN)
        self.f.close()


def tree_hash():
    """Hash of every file of /repo the builds read, and of the machinery's own sources."""
    h = hashlib.sha256()
    def add_dir(base, exts, skip=()):
        for dp, dn, fn in os.walk(base):
            dn[:] = sorted(d for d in dn if d not in ('.git', '.lake', 'bin', '.cache', 'node_modules') and os.path.join(dp, d) not in skip)
            for f in sorted(fn):
                if f.endswith(exts):
                    p = os.path.join(dp, f)
                    h.update(p.encode())
                    with open(p, 'rb') as fh:
                        h.update(hashlib.sha256(fh.read()).digest())
    add_dir(REPO, ('.go', '.proto', '.mod', '.sum'))
    add_dir(HARNESS, ('.go', '.mod'))
    add_dir(TRANSLATOR, ('.go', '.mod'))
    add_dir(os.path.join(ROOT, 'tools'), ('.py',))
    add_dir(os.path.join(ROOT, 'corpus'), ('.ops',))
    with open(os.path.join(ROOT, 'check.py'), 'rb') as fh:
        h.update(hashlib.sha256(fh.read()).digest())
    # of the Lean sources only what the model driver is built from decides a correspondence run (the cached
    # object); proof files are rebuilt incrementally by lake on every check and do not enter the cache key
    add_dir(os.path.join(LEAN, 'Hub', 'Model'), ('.lean',))
    add_dir(os.path.join(LEAN, 'Hub', 'SDK'), ('.lean',))
    for f in ('Main.lean', 'lakefile.toml', 'lakefile.lean'):
        if os.path.exists(os.path.join(LEAN, f)):
            with open(os.path.join(LEAN, f), 'rb') as fh:
                h.update(hashlib.sha256(fh.read()).digest())
    return h.hexdigest()[:20]


# ---------------------------------------------------------------- T-gen

def regenerate():
    """Run the translator. Returns (ok, message)."""
    with Lock('gen'):
        out = os.path.join(LEAN, 'Hub', 'Generated')
        os.makedirs(out, exist_ok=True)
        p = run(['go', 'run', '.', '-repo', REPO, '-out', out], cwd=TRANSLATOR, env=GOENV, timeout=600)
        if p.returncode != 0:
            return False, p.stderr.decode(errors='replace').strip()[-1500:]
        return True, ''


def restore_golden():
    """When regeneration fails the driver is still needed for the search: use the committed copies."""
    gold = os.path.join(LEAN, 'Hub', 'Generated.golden')
    out = os.path.join(LEAN, 'Hub', 'Generated')
    for f in os.listdir(gold):
        shutil.copy(os.path.join(gold, f), os.path.join(out, f))


def lake_build(targets, timeout=3600):
    with Lock('lake'):
        p = run(['lake', 'build'] + targets, cwd=LEAN, timeout=timeout)
    out = (p.stdout + p.stderr).decode(errors='replace')
    return p.returncode == 0, out


def prop_files(prop):
    """Props/<prop>.lean and its parts Props/<prop><Part>.lean (e.g. C17Keys, C17Time, C17Addr)."""
    d = os.path.join(LEAN, 'Hub', 'Props')
    out = []
    # only the parts registered in the library root Hub.lean (a part still being written is not a claim)
    registered = {os.path.basename(x)[:-5] for x in import_closure([os.path.join(LEAN, 'Hub.lean')]) if os.sep + 'Props' + os.sep in x}
    for f in sorted(os.listdir(d)):
        if re.match(r'^%s([A-Z][A-Za-z]*)?\.lean$' % re.escape(prop), f) and f[:-5] in registered:
            out.append(os.path.join(d, f))
    return out


def theorem_names(prop):
    names = []
    for path in prop_files(prop):
        names += theorem_names_file(path)
    return names


def theorem_names_file(path):
    src = open(path).read()
    src_nc = re.sub(r'/-.*?-/', '', src, flags=re.S)
    src_nc = re.sub(r'--.*', '', src_nc)
    ns = []
    cur_ns = []
    names = []
    for line in src_nc.splitlines():
        m = re.match(r'\s*namespace\s+(\S+)', line)
        if m:
            cur_ns.append(m.group(1))
            continue
        m = re.match(r'\s*end\s+(\S+)', line)
        if m and cur_ns and cur_ns[-1] == m.group(1):
            cur_ns.pop()
            continue
        m = re.match(r'\s*(?:@\[[^\]]*\]\s*)?(?:protected\s+)?theorem\s+(\S+)', line)
        if m:
            names.append('.'.join(cur_ns + [m.group(1)]))
    return names


def audit(prop):
    """#print axioms for every theorem of Props/<prop>.lean; forbidden-construct grep over its import closure."""
    names = theorem_names(prop)
    res = {'theorems': [], 'obligations': len(names), 'discharged': 0, 'problems': []}
    if not names:
        return res
    os.makedirs(os.path.join(CACHE, 'audit'), exist_ok=True)
    path = os.path.join(CACHE, 'audit', prop + '.lean')
    with open(path, 'w') as f:
        for pf in prop_files(prop):
            f.write('import Hub.Props.%s\n' % os.path.basename(pf)[:-5])
        for n in names:
            f.write('#print axioms %s\n' % n)
    p = run(['lake', 'env', 'lean', path], cwd=LEAN, timeout=1800)
    out = (p.stdout + p.stderr).decode(errors='replace')
    if p.returncode != 0:
        res['problems'].append('audit file failed: ' + out[-800:])
        return res
    # parse: "'name' depends on axioms: [a, b]" or "'name' does not depend on any axioms"
    flat = re.sub(r'\s+', ' ', out)
    for n in names:
        m = re.search(r"'%s' depends on axioms: \[([^\]]*)\]" % re.escape(n), flat)
        if m:
            ax = [a.strip() for a in m.group(1).split(',') if a.strip()]
        elif re.search(r"'%s' does not depend on any axioms" % re.escape(n), flat):
            ax = []
        else:
            res['problems'].append('no axiom report for ' + n)
            continue
        bad = [a for a in ax if a not in ALLOWED_AXIOMS]
        res['theorems'].append({'name': n, 'axioms': ax})
        if bad:
            res['problems'].append('%s uses foreign axioms %s' % (n, bad))
        else:
            res['discharged'] += 1
    # forbidden constructs in the import closure of the property's files (and the driver's)
    for path in sorted(import_closure(prop_files(prop) + [os.path.join(LEAN, 'Main.lean')])):
        src = open(path).read()
        src_nc = re.sub(r'/-.*?-/', '', src, flags=re.S)
        src_nc = re.sub(r'--.*', '', src_nc)
        m = FORBIDDEN.search(src_nc)
        if m:
            res['problems'].append('forbidden construct %r in %s' % (m.group(0), path))
    res['closure_files'] = len(import_closure(prop_files(prop)))
    return res


def import_closure(files):
    seen = set()
    todo = list(files)
    while todo:
        f = todo.pop()
        if f in seen or not os.path.exists(f):
            continue
        seen.add(f)
        for m in re.finditer(r'^import\s+(Hub(?:\.[A-Za-z0-9_]+)+)', open(f).read(), re.M):
            todo.append(os.path.join(LEAN, *m.group(1).split('.')) + '.lean')
    return seen


# ---------------------------------------------------------------- T-corr

def build_harness():
    os.makedirs(BIN, exist_ok=True)
    with Lock('go'):
        shutil.copy(os.path.join(REPO, 'go.sum'), os.path.join(HARNESS, 'go.sum'))
        p = run(['go', 'build', '-tags', 'verif', '-o', os.path.join(BIN, 'hubsim'), './cmd/hubsim'], cwd=HARNESS, env=GOENV, timeout=1800)
        if p.returncode != 0:
            return False, p.stderr.decode(errors='replace')[-3000:]
        for tool in ('probe', 'probe19'):
            p = run(['go', 'build', '-tags', 'verif', '-o', os.path.join(BIN, tool), './cmd/' + tool], cwd=HARNESS, env=GOENV, timeout=1800)
            if p.returncode != 0:
                return False, p.stderr.decode(errors='replace')[-3000:]
    return True, ''


def hubmodel():
    return os.path.join(LEAN, '.lake', 'build', 'bin', 'hubmodel')


def impl_monitors(impl_path):
    """Search on the implementation: load every implementation state of the stream into the Lean
    `State` (Hub/Model/Load.lean) and evaluate the executable monitors on it."""
    with open(impl_path, 'rb') as fi:
        p = subprocess.run([hubmodel(), '--implmon'], stdin=fi, stdout=subprocess.PIPE, stderr=subprocess.PIPE, timeout=1800)
    hits = []
    if p.returncode != 0:
        return [{'index': 0, 'op': '', 'monitor': 'V implmon-crashed ' + p.stderr.decode(errors='replace')[-200:], 'side': 'impl'}]
    for line in p.stdout.decode(errors='replace').split('\n'):
        ms = re.match(r'Isum states=(\d+)', line)
        if ms:
            hits.append({'summary': True, 'states': int(ms.group(1))})
            continue
        m = re.match(r'I (\d+) (\S+)(.*?) \| (.*)$', line)
        if m:
            hits.append({'index': int(m.group(1)), 'op': m.group(4), 'monitor': 'V ' + m.group(2), 'detail': m.group(3).strip()[:300], 'side': 'impl'})
    return hits


def hang_result(res, e, limit_s):
    """The implementation did not answer an operation within the time limit (a loop that does not end): the
    operations answered so far plus the one that hangs are the history; reported as a halt (C03)."""
    err = (e.stderr or b'').decode(errors='replace').split('\n')
    started = [l[2:] for l in err if l.startswith('X ')]
    hist = res['impl'][:-5] + '.hang.ops'
    with open(hist, 'w') as f:
        f.write('\n'.join(started) + '\n')
    res['hang'] = {'op': started[-1] if started else '', 'index': len(started), 'ops': hist, 'limit_s': limit_s}
    res['mismatches'] = []
    res['stats'] = {'ops': 0, 'accept': 0, 'reject': 0, 'halt': 0, 'monitor_hits': []}
    res['impl_hits'] = []
    return res


def one_history(workdir, seed, profile, blocks):
    """Generate one history on the real app, replay it on the model, compare. Returns a result dict."""
    tag = '%s_%d' % (profile, seed)
    ops = os.path.join(workdir, tag + '.ops')
    impl = os.path.join(workdir, tag + '.impl')
    model = os.path.join(workdir, tag + '.model')
    res = {'seed': seed, 'profile': profile, 'ops': ops, 'impl': impl, 'model': model}
    limit_s = 120 if blocks <= 150 else 600
    try:
        with open(impl, 'wb') as f:
            p = subprocess.run([os.path.join(BIN, 'hubsim'), 'gen', '-seed', str(seed), '-blocks', str(blocks), '-profile', profile, '-ops', ops],
                               stdout=f, stderr=subprocess.PIPE, timeout=limit_s)
    except subprocess.TimeoutExpired as e:
        return hang_result(res, e, limit_s)
    if p.returncode != 0:
        res['gen_error'] = p.stderr.decode(errors='replace')[-1500:]
        return res
    with open(ops, 'rb') as fi, open(model, 'wb') as fo:
        p = subprocess.run([hubmodel()], stdin=fi, stdout=fo, stderr=subprocess.PIPE, timeout=1800)
    if p.returncode != 0:
        res['model_error'] = p.stderr.decode(errors='replace')[-1500:]
        return res
    mism, stats = cmp.compare(impl, model, limit=8)
    res['mismatches'] = mism
    res['stats'] = stats
    res['roundtrip'] = cmp.roundtrip_analysis(impl)
    res['impl_hits'] = impl_monitors(impl)
    return res


def one_corpus(workdir, ops):
    tag = 'corpus_' + os.path.basename(ops)[:-4]
    impl = os.path.join(workdir, tag + '.impl')
    model = os.path.join(workdir, tag + '.model')
    res = {'seed': 0, 'profile': tag, 'ops': ops, 'impl': impl, 'model': model, 'keep_ops': True}
    try:
        with open(ops, 'rb') as fi, open(impl, 'wb') as fo:
            p = subprocess.run([os.path.join(BIN, 'hubsim'), 'run'], stdin=fi, stdout=fo, stderr=subprocess.PIPE, timeout=300)
    except subprocess.TimeoutExpired as e:
        return hang_result(res, e, 300)
    if p.returncode != 0:
        res['gen_error'] = p.stderr.decode(errors='replace')[-1500:]
        return res
    with open(ops, 'rb') as fi, open(model, 'wb') as fo:
        p = subprocess.run([hubmodel()], stdin=fi, stdout=fo, stderr=subprocess.PIPE, timeout=600)
    if p.returncode != 0:
        res['model_error'] = p.stderr.decode(errors='replace')[-1500:]
        return res
    mism, stats = cmp.compare(impl, model, limit=8)
    res['mismatches'] = mism
    res['stats'] = stats
    res['roundtrip'] = cmp.roundtrip_analysis(impl)
    res['impl_hits'] = impl_monitors(impl)
    return res


def changed_functions():
    """Functions of /repo whose normalised text differs from the one the model was last validated against:
    the regenerated digest table (Generated/Facts.lean, funcDigests) against the committed golden copy.
    Not a verdict (a harmless rewrite changes a digest too): it only raises the budget of the search."""
    def table(path):
        out = {}
        try:
            for line in open(path):
                m = re.match(r'\s*\("([^"]*)", "([^"]*)", "([^"]*)", "([0-9a-f]{64})"\)', line)
                if m:
                    out[(m.group(1), m.group(2), m.group(3))] = m.group(4)
        except OSError:
            pass
        return out
    cur = table(os.path.join(LEAN, 'Hub', 'Generated', 'Facts.lean'))
    gold = table(os.path.join(LEAN, 'Hub', 'Generated.golden', 'Facts.lean'))
    if not cur or not gold:
        return []
    ch = [k for k in cur if gold.get(k) != cur[k]] + [k for k in gold if k not in cur]
    return sorted('%s:%s%s' % (f, (r + '.') if r else '', n) for f, r, n in ch)


def corr_plan(tier, seed, boost=False):
    """(profile, seed, blocks) triples of a tier, derived from VERIF_SEED. `boost`: some function differs from
    the text the model was validated against - the quick tier then runs three times the histories."""
    profiles = ['lifecycle', 'money', 'quota', 'authz', 'gov', 'govdelay', 'extreme', 'genesis', 'sessions', 'validate']
    plan = []
    if boost and tier == 'quick':
        for i, p in enumerate(profiles):
            for j in range({'sessions': 14, 'genesis': 10, 'extreme': 8}.get(p, 6)):
                plan.append((p, seed * 1000 + i * 10 + j if j < 10 else seed * 1000 + 500 + i * 10 + j, 120))
        return plan
    # the session-settlement paths need several settled sessions on one subscription: more seeds there
    per = (lambda p: {'sessions': 6, 'genesis': 4, 'extreme': 3}.get(p, 2)) if tier == 'quick' else (lambda p: {'sessions': 24, 'genesis': 20}.get(p, 12))
    blocks = 90 if tier == 'quick' else 300
    step = 10 if tier == 'quick' else 100
    for i, p in enumerate(profiles):
        for j in range(per(p)):
            plan.append((p, seed * 1000 + i * step + j, blocks))
    return plan


def run_corr(tier, seed, th):
    """Run (or reuse) the correspondence run of this tree state. Returns the summary dict."""
    cdir = os.path.join(CACHE, th, '%s_%d' % (tier, seed))
    summ = os.path.join(cdir, 'summary.json')
    with Lock('corr'):
        if os.path.exists(summ):
            return json.load(open(summ))
        os.makedirs(cdir, exist_ok=True)
        from concurrent.futures import ThreadPoolExecutor
        changed = changed_functions()
        plan = corr_plan(tier, seed, boost=bool(changed))
        t0 = time.time()
        with ThreadPoolExecutor(max_workers=min(14, os.cpu_count() or 4)) as ex:
            results = list(ex.map(lambda a: one_history(cdir, a[1], a[0], a[2]), plan))
        # minimised past failures and hand-written scenarios run with every check
        cdir_corpus = os.path.join(ROOT, 'corpus')
        for f in sorted(os.listdir(cdir_corpus)):
            if f.endswith('.ops') and f != 'base.ops':
                results.append(one_corpus(cdir, os.path.join(cdir_corpus, f)))
        summary = summarize(results)
        summary['wall_s'] = time.time() - t0
        summary['dir'] = cdir
        summary['changed_functions'] = changed
        summary['boosted'] = bool(changed) and tier == 'quick'
        # keep only the files of failing histories
        for r in results:
            if not r.get('mismatches') and not r.get('gen_error') and not r.get('model_error') and not r.get('halts'):
                for k in (('impl', 'model') if r.get('keep_ops') else ('ops', 'impl', 'model')):
                    try:
                        os.remove(r[k])
                    except OSError:
                        pass
        json.dump(summary, open(summ, 'w'), indent=1)
        return summary


def summarize(results):
    tot = {'histories': len(results), 'ops': 0, 'accept': 0, 'reject': 0, 'halt': 0, 'op_kinds': {}, 'distinct': 0}
    failing = []
    errors = []
    hits = []
    distinct = set()
    samples = []
    for r in results:
        if 'gen_error' in r or 'model_error' in r:
            errors.append({k: r.get(k) for k in ('seed', 'profile', 'gen_error', 'model_error')})
            continue
        st = r['stats']
        for k in ('ops', 'accept', 'reject', 'halt'):
            tot[k] += st.get(k, 0)
        tot['impl_states_monitored'] = tot.get('impl_states_monitored', 0) + sum(h.get('states', 0) for h in r.get('impl_hits', []) if h.get('summary'))
        r['impl_hits'] = [h for h in r.get('impl_hits', []) if not h.get('summary')]
        model_hits = [dict(h, side='model') for h in st.get('monitor_hits', [])]
        seen = {(h['index'], h['monitor']) for h in model_hits}
        both = {(h['index'], h['monitor']) for h in r.get('impl_hits', [])} & seen
        for h in model_hits:
            if (h['index'], h['monitor']) in both:
                h['side'] = 'both'
        impl_only = [h for h in r.get('impl_hits', []) if (h['index'], h['monitor']) not in seen]
        # only the first failing operation per (side, monitor) of a history is a separate hit
        merged, first = [], set()
        for h in sorted(model_hits + impl_only, key=lambda h: h['index']):
            k = (h['side'] == 'model', h['monitor'])
            if k in first:
                continue
            first.add(k)
            merged.append(h)
        if impl_only or model_hits:
            r['halts'] = True   # keep the files of this history
        for h in merged:
            try:
                ops_lines = [l for l in open(r['ops']).read().split('\n') if l.strip() and not l.startswith('#')]
            except OSError:
                ops_lines = []
            # operation lines that produce an answer block (everything after `start`, plus `start`)
            answered = [l for l in ops_lines if l.split()[0] not in ('init', 'bal', 'key', 'infl')]
            before = answered[:h['index']]
            govdelay = any(re.match(r'gov space=(session|subscription) key=StatusChangeDelay', l) for l in before)
            reimp = any(l.startswith('reimport') for l in before)
            hits.append(dict(h, seed=r['seed'], profile=r['profile'], ops=r['ops'], delay_change_before=govdelay, reimport_before=reimp))
        for m in r['mismatches']:
            failing.append(dict(m, seed=r['seed'], profile=r['profile'], ops_file=r['ops']))
        # distinct (operation kind, outcome class) pairs, from the implementation's stream
        try:
            with open(r['impl'], errors='replace') as f:
                op = None
                paid_subs = {}
                for line in f:
                    if line.startswith('E '):
                        dom = tot.setdefault('domain', {})
                        for key, pat in (('session_settlements', 'EventPayForSession'), ('hourly_payouts', 'EventPayForPayout'), ('refunds', 'EventRefund'),
                                         ('plan_payments', 'EventPayForPlan'), ('allocations', 'EventAllocate'), ('swaps', 'swap.v1.EventSwap')):
                            if pat in line:
                                dom[key] = dom.get(key, 0) + 1
                        if 'EventPayForSession' in line:
                            if 'payment=0' not in line:
                                dom['session_settlements_nonzero'] = dom.get('session_settlements_nonzero', 0) + 1
                            msub = re.search(r'subscription_id=(\d+)', line)
                            if msub:
                                paid_subs[msub.group(1)] = paid_subs.get(msub.group(1), 0) + 1
                    elif line.startswith('R accept') and op in ('reimport', 'export', 'gov'):
                        dom = tot.setdefault('domain', {})
                        dom[op + '_accepted'] = dom.get(op + '_accepted', 0) + 1
                    if line.startswith('> '):
                        parts = line[2:].split()
                        op = parts[0] + (':' + parts[1] if parts[0] in ('tx', 'query') and len(parts) > 1 else '')
                    elif line.startswith('R ') and op:
                        cls = re.sub(r'[0-9a-f]{6,}|sent[a-z]*1[0-9a-z]+|\d+', '#', line[2:].strip())[:70]
                        distinct.add((op, cls))
                        tot['op_kinds'][op] = tot['op_kinds'].get(op, 0) + 1
                        if len(samples) < 6 and line.startswith('R accept') and op.startswith('tx'):
                            samples.append(op)
                        op = None
                dom = tot.setdefault('domain', {})
                dom['subscriptions_with_2plus_settled_sessions'] = dom.get('subscriptions_with_2plus_settled_sessions', 0) + sum(1 for v in paid_subs.values() if v > 1)
        except OSError:
            pass
    tot['distinct'] = len(distinct)
    halts = []
    for r in results:
        if 'gen_error' in r or 'model_error' in r:
            continue
        if r.get('hang'):
            hg = r['hang']
            halts.append({'seed': r['seed'], 'profile': r['profile'], 'ops': hg['ops'], 'index': hg['index'], 'op': hg['op'],
                          'message': 'operation_does_not_complete:_no_answer_within_%d_s' % hg['limit_s'], 'delay_change_before': False, 'reimport_before': False})
            r['halts'] = True
            continue
        try:
            with open(r['impl'], errors='replace') as f:
                lines = f.read().split('\n')
        except OSError:
            continue
        n = 0
        for k, line in enumerate(lines):
            if line.startswith('> '):
                n += 1
            if line.startswith('R halt:'):
                govdelay = any(re.match(r'> gov space=(session|subscription) key=StatusChangeDelay', l) for l in lines[:k])
                reimp = any(l.startswith('> reimport') for l in lines[:k])
                halts.append({'seed': r['seed'], 'profile': r['profile'], 'ops': r['ops'], 'index': n, 'op': lines[k - 1][2:] if k else '',
                              'message': line[7:][:900], 'delay_change_before': govdelay, 'reimport_before': reimp})
                r['halts'] = True
    rt = {'exports': 0, 'reimports': 0, 'export_rejects': [], 'reimport_diffs': []}
    for r in results:
        x = r.get('roundtrip')
        if not x:
            continue
        rt['exports'] += x['exports']
        rt['reimports'] += x['reimports']
        for e in x['export_rejects']:
            rt['export_rejects'].append(dict(e, seed=r['seed'], profile=r['profile'], ops=r['ops']))
        for e in x['reimport_diffs']:
            rt['reimport_diffs'].append(dict(e, seed=r['seed'], profile=r['profile'], ops=r['ops']))
            r['halts'] = True   # keep the files
    return {'totals': tot, 'mismatches': failing, 'errors': errors, 'monitor_hits': hits, 'halts': halts, 'roundtrip': rt,
            'distinct_list': sorted('%s => %s' % d for d in distinct)[:400]}


# ---------------------------------------------------------------- findings, evidence, verdict

def load_findings():
    p = os.path.join(ROOT, 'known_findings.json')
    if not os.path.exists(p):
        return []
    return json.load(open(p)).get('findings', [])


def write_evidence(prop, tier, seed, cov, wall, violations, assumptions):
    evdir = os.environ.get('VERIF_EVIDENCE_DIR') or os.path.join(ROOT, 'evidence')   # tools/mutant*.sh redirect it
    os.makedirs(evdir, exist_ok=True)
    ev = {'property_id': prop, 'tier': tier, 'seed': seed, 'level': PROPS[prop]['level'], 'coverage': cov,
          'assumptions': assumptions, 'wall_s': round(wall, 2), 'violations': violations}
    with open(os.path.join(evdir, prop + '.json'), 'w') as f:
        json.dump(ev, f, indent=1)


def write_replay(prop, seed, body):
    os.makedirs(os.path.join(ROOT, 'replays'), exist_ok=True)
    path = os.path.join(ROOT, 'replays', '%s-%d.json' % (prop, seed))
    # make the replay self-contained: the history prefix up to the failing operation
    src = (body.get('monitor') or {}).get('ops') or (body.get('mismatch') or {}).get('ops_file') or (body.get('halt') or {}).get('ops')
    idx = (body.get('monitor') or body.get('mismatch') or body.get('halt') or {}).get('index')
    if src and os.path.exists(src):
        out, n = [], 0
        for l in open(src).read().split('\n'):
            if l.strip() and not l.startswith('#') and l.split()[0] not in ('init', 'bal', 'key', 'infl'):
                n += 1
            out.append(l)
            if idx and n >= idx:
                break
        hist = os.path.join(ROOT, 'replays', '%s-%d.ops' % (prop, seed))
        open(hist, 'w').write('\n'.join(out) + '\n')
        body = dict(body, history=hist, history_ops=n,
                    how_to_replay='harness/bin/hubsim run < %s   (implementation) ; lean/.lake/build/bin/hubmodel < %s   (model) ; lean/.lake/build/bin/hubmodel --implmon < <implementation output>   (monitors on the implementation states)' % (hist, hist))
    with open(path, 'w') as f:
        json.dump(body, f, indent=1)
    return path


TRUSTED_BASE = [
    'Lean 4.33 kernel (lake build; leanchecker in the thorough tier)',
    'axioms propext, Classical.choice, Quot.sound only (audited per theorem with #print axioms)',
    'the Go->Lean translator /verif/translator (T-gen) for utils/coin.go, types/bandwidth.go, types/status*.go, x/*/types/keys.go, fact tables',
    'the harness /verif/harness (handler-mode re-implementation of tx atomicity, cross-checked in the thorough tier against signed transactions through the real DeliverTx and ante handler: tools/txmode.py), the comparer /verif/tools/compare.py',
    'hand-written models of dependencies: cosmossdk.io/math Int/LegacyDec, sdk.Coins, x/bank send/mint, x/distribution fee sweep and community pool, x/params Subspace.Update/Modified, cachekv snapshot iterators, PrefixEndBytes, Go time.Format (Hinnant civil-from-days), signature verification as an oracle bit',
    'modelled rather than verified: all hub keeper/handler/hook/genesis/query code is modelled by hand (lean/Hub/Model) and tied by the correspondence check on seeded histories',
    'the loader of implementation states (lean/Hub/Model/Load.lean) and the monitor loop (hubmodel --implmon); the per-property projections and failing-input rules (tools/propdefs.py, section_relevant / concrete_failure in check.py, round-trip analysis in tools/compare.py)',
    'test operations of the line protocol that are not operations of the configuration domain: jump (the keepers own SetCount, forwards only; Props/C18Jump shows the invariants survive it), inspect (every listing getter under recover), restart (a new application instance over the same database between two blocks)',
    'JSON: the text layer (encoding/json) and the reading of gogoproto jsonpb / ProtoCodec behind lean/Hub/SDK/ProtoJson.lean (validated by probe19: tree and predicted outcome compared on every generated value)',
]


MONEY_PANIC = re.compile(r'insufficient_deposit|negative_coin_amount|insufficient_funds|negative_amount')
INDEX_PANIC = re.compile(r'invalid_key_length|_key_[0-9A-Fa-f]+_does_not_exist')


def C14_EXPORT(m):
    """An `export` disagreement that concerns the swap records: differing `G swap` lines, or a swap section
    that one side's validation refuses."""
    sw = lambda ls: sorted(x for x in (ls or []) if isinstance(x, str) and x.startswith('G swap'))
    if m.get('kind') == 'events':
        return sw(m.get('impl')) != sw(m.get('model'))
    return 'swap' in str(m.get('impl') or '') or 'swap' in str(m.get('model') or '')


def section_relevant(prop, m):
    proj = PROPS[prop].get('sections')
    if proj is None:
        return True
    op = m.get('op', '') or ''
    if m['kind'] in ('desync', 'length', 'model-bad-op'):
        return True
    if m['kind'] == 'result' and prop in ('C17', 'C19') and any(
            (m.get(side) or '').startswith(('reject:validate', 'reject:panic')) for side in ('impl', 'model')):
        # a message that one side refuses at the decoding / stateless-validation stage (address text,
        # field encoding) and the other side does not: the text and wire forms are C17's and C19's subject
        return True
    if m['kind'] == 'result' and prop in ('C01', 'C02', 'C05', 'C16') and (m.get('impl') or '').startswith('halt') \
            and MONEY_PANIC.search(m.get('impl') or '') and not (m.get('model') or '').startswith('halt'):
        # a block hook tried to take more from an escrow record (or the escrow account) than it holds, or
        # computed a negative payment / refund: somebody was charged beyond what the deposit covers
        return True
    if m['kind'] == 'result' and prop == 'C09' and INDEX_PANIC.search(m.get('impl') or '') and not INDEX_PANIC.search(m.get('model') or ''):
        # the implementation stopped with an internal error while reading an index / queue entry
        # (malformed key, or an entry whose record is gone): C09's "never an internal error" and
        # "every queue entry the block hooks will later consume points at a live record"
        return True
    if m['kind'] == 'result':
        opk = op.split()[0] if op else ''
        sub = op.split()[1] if opk in ('tx', 'query') and len(op.split()) > 1 else ''
        for pat in PROPS[prop].get('result_ops', []):
            if pat == opk or pat == opk + ':' + sub or pat == '*':
                return True
        return False
    if m['kind'] in ('events', 'result') and op.startswith('export') and prop == 'C14' and C14_EXPORT(m):
        # "is recorded": the swap records the chain hands out (export lists every record) differ from the executed swaps
        return True
    if m['kind'] == 'events' and op.startswith('export') and prop == 'C19':
        # the exported (decoded) records differ from the stored ones as the model reads them
        return True
    if m['kind'] == 'events' and op.startswith('query'):
        sub = op.split()[1] if len(op.split()) > 1 else ''
        return any(pat in ('query', 'query:' + sub, '*') for pat in PROPS[prop].get('result_ops', []))
    if m['kind'] == 'events':
        return 'events' in proj or any(p.startswith('event:') and p[6:] in json.dumps(m) for p in proj)
    secs = m.get('sections', [])
    return any(any(s == p or s.startswith(p) for p in proj) for s in secs)


def concrete_failure(prop, m):
    """Is this disagreement, by itself, a concrete input on which the property fails on the
    implementation?  Only where the model's answer is the property's specification (theorems of
    Props/<prop>) and the direction of the disagreement contradicts the property."""
    op = m.get('op') or ''
    if prop in ('C01', 'C02', 'C05', 'C16') and m.get('kind') == 'result' and (m.get('impl') or '').startswith('halt') \
            and MONEY_PANIC.search(m.get('impl') or '') and not (m.get('model') or '').startswith('halt'):
        return True
    if prop == 'C09' and m.get('kind') == 'result' and INDEX_PANIC.search(m.get('impl') or '') and not INDEX_PANIC.search(m.get('model') or ''):
        return True
    if op.startswith('query') and prop in ('C13', 'C09'):
        # the model's answer to a listing is filter + page of the stored records (Props/C13, C09)
        return True
    wrongly_accepted = m.get('kind') == 'result' and (m.get('impl') or '').startswith('accept') and (m.get('model') or '').startswith('reject')
    if prop in ('C17', 'C19') and m.get('kind') == 'result' and (m.get('impl') or '').startswith(('reject:validate', 'reject:panic')) \
            and (m.get('model') or '').startswith('accept'):
        # a well-formed message (the model accepts it) that the implementation cannot read back from its own text / wire form
        return True
    if prop in ('C07', 'C08', 'C14') and wrongly_accepted:
        # accepted => authorised / admissible (Props/C07, C08, C14) holds of the model; the implementation accepted
        return True
    if prop == 'C08' and m.get('kind') == 'result' and (m.get('impl') or '').startswith('reject:handler') and (m.get('model') or '').startswith('accept') \
            and any(k in op for k in ('planCreate', 'planStatus', 'planLink', 'planUnlink', 'nodeStatus', 'sessEnd', 'sessStart', 'subCancel',
                                      'provRegister', 'nodeRegister', 'planSubscribe', 'nodeSubscribe')):
        # the converse clause: a well-formed request that meets every precondition and can be paid for is accepted
        # (Props/C08 *_complete are about the model, which accepts); the implementation's handler refused it
        return True
    if prop == 'C06' and wrongly_accepted and any(k in op for k in ('sessStart', 'subAllocate')):
        # an exhausted holder starting a session / a share leaving a holder below its usage or creating quota:
        # refused by the model (Props/C06 exhausted_rejected, share_never_below_used), accepted by the implementation
        return True
    if prop == 'C04' and wrongly_accepted and any(k in op for k in ('subCancel', 'sessEnd', 'nodeStatus')):
        # a demotion request the model refuses (not the owner, wrong state): accepted by the implementation, it demotes a
        # record before its deadline without its owner asking (Props/C04 *_never_early lists the only causes)
        return True
    if prop == 'C04' and m.get('kind') == 'events':
        # the model's status transitions are the proven ones (Props/C04 status_monotone, *_never_early, timely,
        # pending_exact): a record the implementation moves once more, once less or to another status in the same
        # step was demoted twice, early, late or backwards
        ups = lambda ls: sorted(x for x in (ls or []) if 'EventUpdateStatus' in x)
        if ups(m.get('impl')) != ups(m.get('model')):
            return True
    if prop == 'C04' and m.get('kind') == 'state':
        def recs(ls):
            out = {}
            for x in ls or []:
                t = x.split()
                if len(t) > 4 and t[0] == '+S' and t[1] == 'vpn' and t[2] in ('node', 'subscription', 'session') and t[3].startswith('10'):
                    f = dict(y.split('=', 1) for y in t[4:] if '=' in y)
                    out[(t[2], t[3])] = (f.get('status'), f.get('statusAt'), f.get('inactiveAt'))
            return out
        a, b = recs(m.get('only_impl')), recs(m.get('only_model'))
        if any(k in b and a[k] != b[k] for k in a) or any(k not in b for k in a) or any(k not in a for k in b):
            # a stored status, status time or deadline differs (or the record exists on one side only)
            return True
    if prop == 'C11' and wrongly_accepted and any(k in op for k in ('nodeRegister', 'nodeUpdate', 'nodeSubscribe')):
        return True
    if prop == 'C19' and m.get('kind') == 'result' and op.startswith('export') and (m.get('impl') or '').startswith('reject') \
            and (m.get('model') or '').startswith('accept'):
        # the genesis the chain has just written is refused by the chain's own validation (the model's export validates:
        # Props/C12Export): an export-then-import flow cannot read it back
        return True
    if prop == 'C19' and m.get('kind') == 'events' and op.startswith('export'):
        # a stored record that does not decode to the value it was written from (the export lists every record)
        return True
    if prop == 'C06' and m.get('kind') == 'state' and (op.startswith('end') or op.startswith('begin')):
        # at a settlement the model adds exactly the bytes the session reported, capped at the grant (Props/C06All
        # used_grows_only_at_settlement_reachable): an allocation whose used bytes end up higher on the implementation
        # grew by more than was reported, or without a settlement of that holder
        def used(ls):
            out = {}
            for x in ls or []:
                t = x.split()
                if len(t) > 4 and x.startswith('+S vpn subscription 20'):
                    f = dict(y.split('=', 1) for y in t[4:] if '=' in y)
                    try:
                        out[t[3]] = int(f.get('used', '0'))
                    except ValueError:
                        pass
            return out
        a, b = used(m.get('only_impl')), used(m.get('only_model'))
        if any(k in b and a[k] > b[k] for k in a):
            return True
    if prop == 'C18' and m.get('kind') == 'state' and any(k in op for k in ('tx planCreate', 'tx nodeSubscribe', 'tx planSubscribe', 'tx sessStart')):
        # identifiers are issued as count+1 (Props/C18 *_ids_issued_in_order): the record created by this message sits
        # under a different identifier on the implementation than in the model
        newkeys = lambda ls: {x.split()[3] for x in (ls or []) if x.startswith('+S vpn plan 10') or x.startswith('+S vpn subscription 10') or x.startswith('+S vpn session 10')}
        a, b = newkeys(m.get('only_impl')), newkeys(m.get('only_model'))
        if a and b and a != b:
            return True
    if prop == 'C18' and m.get('kind') == 'state':
        # settlement books a session's bytes on the allocation of the subscription the session was started on
        # (Props/C18 session_settled_against_its_own_subscription; allocations and payouts carry their subscription's
        # identifier): the implementation changed an allocation or payout under a different identifier than the model
        keys = lambda ls: {x.split()[3] for x in (ls or []) if x.startswith('+S vpn subscription 20') or x.startswith('+S vpn subscription 30')}
        if keys(m.get('only_impl')) != keys(m.get('only_model')):
            return True
    if prop == 'C14' and op.startswith('export') and C14_EXPORT(m):
        # every executed swap is recorded under its own hash with the credited amount (Props/C14 swapLedger, one_swap_per_hash)
        return True
    if prop == 'C14' and m.get('kind') == 'state' and op.startswith('tx swap'):
        # an accepted swap mints exactly amount/100 to the receiver and records it (Props/C14)
        return True
    if prop == 'C16' and m.get('kind') == 'state' and op.startswith('tx nodeSubscribe') and ' gb=0 ' not in op + ' ' \
            and any(' vpn deposit ' in x or ' vpn subscription 10' in x for x in m.get('only_impl', [])):
        # the deposit of an accepted gigabyte purchase is the charge for gb x 10^9 bytes at the quoted price, i.e.
        # the smallest whole number not below p*b/10^9 (Props/C05 node_sub_gb_escrows_quote over Props/C16 afb_exact):
        # a different deposit on the implementation is a byte count charged inexactly
        return True
    if prop == 'C05' and m.get('kind') == 'state' and (op.startswith('tx planSubscribe') or op.startswith('tx nodeSubscribe')):
        # an accepted purchase moves exactly quote x quantity / the plan price, split into the exactly rounded fee
        # and the rest (Props/C05, single-step theorems about the model): a different movement is a failing purchase
        return True
    if prop == 'C05' and op.startswith('begin') and m.get('kind') in ('state', 'events') and 'PayForPayout' in json.dumps(m) + ' '.join(m.get('only_impl', []) + m.get('only_model', [])) + str(m.get('impl', '')):
        # the hourly payout of the model is the quoted price, split into the exactly rounded fee and the rest (Props/C05)
        return True
    if prop == 'C15' and (op.startswith('mintprobe') or (m.get('kind') == 'state' and all(x in ('custommint', 'sdkmint') for x in m.get('sections', ['?'])))):
        # the model's parameters after BeginBlock are those of the latest due entry (Props/C15)
        return True
    return False


def check_property(prop, tier, seed):
    t0 = time.time()
    P = PROPS[prop]
    violations = []   # (message, replay_body)
    notes = []
    th = tree_hash()

    # (1) T-gen
    ok, msg = regenerate()
    gen_broken = None
    if not ok:
        gen_broken = msg
        restore_golden()
        notes.append('translator refused: ' + msg)

    # (2) build theorems + driver
    targets = ['Hub.Props.' + os.path.basename(f)[:-5] for f in prop_files(prop)] + ['hubmodel']
    okb, bout = lake_build(targets)
    build_broken = None
    if not okb:
        # distinguish: failure inside Hub/Generated or Props (a proof obligation broke) vs. machinery
        build_broken = bout[-3000:]
        okd, dout = lake_build(['hubmodel'])
        if not okd:
            if gen_broken is None:
                # regenerated definitions no longer compile with the model: fall back to golden for the search
                restore_golden()
                okd, dout = lake_build(['hubmodel'])
            if not okd:
                raise Broken('model driver does not build: ' + dout[-2000:])

    # (3) audit
    aud = {'theorems': [], 'obligations': 0, 'discharged': 0, 'problems': []}
    if okb:
        aud = audit(prop)
        if aud['problems']:
            raise Broken('audit: ' + '; '.join(aud['problems']))
    else:
        aud['obligations'] = len(theorem_names(prop))

    # (3b) thorough tier: independent re-check of the compiled property modules with leanchecker
    lc = None
    if tier == 'thorough' and okb:
        mods = ['Hub.Props.' + os.path.basename(f)[:-5] for f in prop_files(prop)]
        t1 = time.time()
        with Lock('lake'):
            p = run(['lake', 'env', 'leanchecker'] + mods, cwd=LEAN, timeout=7200)
        lc = {'modules': mods, 'ok': p.returncode == 0, 'wall_s': round(time.time() - t1, 1)}
        if p.returncode != 0:
            violations.append(('leanchecker rejects a compiled property module', {'tie': 'leanchecker', 'detail': (p.stdout + p.stderr).decode(errors='replace')[-1500:]}))

    # (4) harness + T-corr
    okh, hmsg = build_harness()
    if not okh:
        raise Broken('harness does not build against /repo: ' + hmsg)
    corr = run_corr(tier, seed, th)
    if corr['errors']:
        raise Broken('correspondence run failed: ' + json.dumps(corr['errors'])[:1500])
    rel = [m for m in corr['mismatches'] if section_relevant(prop, m)]

    # (4b) thorough tier: the harness's handler mode against the real DeliverTx path (run once per tree state)
    txm = None
    if tier == 'thorough':
        txm = run_txmode(seed, th)
        if txm['errors']:
            raise Broken('tx-mode cross-check failed to run: ' + json.dumps(txm['errors'])[:1500])
        if txm['mismatches']:
            m = txm['mismatches'][0]
            raise Broken('harness handler mode and the real DeliverTx path disagree (%d operations; first: %s at operation %d of %s: %s | %s)' % (
                len(txm['mismatches']), m['kind'], m['index'], m['file'], m['op'][:300], json.dumps(m['detail'])[:600]))

    # (5) pure probes
    probe = run_probe(prop, tier, seed, th) if P.get('probe') else None
    if prop == 'C19' and probe is not None:
        # a stored record survives only if its key is its own: the key-constructor probe of C17 (a second key built
        # before the first is read, every component shape) also runs for C19
        p17 = run_probe('C17', tier, seed, th)
        probe = dict(probe)
        probe['violations'] = list(probe.get('violations', [])) + [v for v in p17.get('violations', []) if v.get('failing_input', '').startswith('key ')]
        probe['evaluations'] = probe.get('evaluations', 0) + p17.get('evaluations', 0)
    det = run_determinism(tier, seed, th) if P.get('determinism') else None

    findings = [f for f in load_findings() if f.get('property') == prop and f.get('kind') == 'known']
    known_lines = []

    # verdicts
    if gen_broken is not None and P.get('uses_generated'):
        violations.append(('T-gen: translator refused the current source', {'tie': 'T-gen', 'detail': gen_broken}))
    if build_broken is not None:
        violations.append(('proof obligation no longer checks after regeneration', {'tie': 'lake build Hub.Props.' + prop, 'detail': build_broken}))
    # report at most three disagreements, those that are by themselves failing inputs first
    for m in sorted(rel, key=lambda m: 0 if concrete_failure(prop, m) else 1)[:3]:
        body = {'tie': 'T-corr', 'mismatch': m}
        if concrete_failure(prop, m):
            body['failing_input'] = m['op']
        violations.append(('correspondence broken: %s at op %d of %s seed %d' % (m['kind'], m['index'], m['profile'], m['seed']), body))
    for h in corr['monitor_hits']:
        if h.get('reimport_before') and prop != 'C12' and h.get('side') != 'impl':
            continue   # consequences of the round trip that the model shares (F5: subscriptions lost) are C12's findings;
                       # a monitor that fails on the implementation's state ONLY is not explained by them
        mon = h['monitor'].split()[1] if len(h['monitor'].split()) > 1 else ''
        if mon in P.get('monitors', []):
            sig = match_finding(findings, h)
            if sig:
                known_lines.append(sig)
            else:
                violations.append(('monitor %s failed' % mon, {'monitor': h}))
    if P.get('roundtrip'):
        rtx = corr.get('roundtrip', {})
        for e in rtx.get('export_rejects', []) + rtx.get('reimport_diffs', []):
            sig = match_finding(findings, e)
            if sig:
                known_lines.append(sig)
            else:
                violations.append(('exported genesis invalid or altered by the round trip', {'failing_input': e['ops'], 'roundtrip': e}))
    if prop == 'C14':
        # "is recorded": a swap record lost or altered by an export / re-import lets its hash be minted again
        for e in corr.get('roundtrip', {}).get('reimport_diffs', []):
            if any(str(x).startswith('swap') for x in e.get('sections', [])):
                violations.append(('a recorded swap is lost or altered by the export / re-import round trip', {'failing_input': e['ops'], 'roundtrip': e}))
    if P.get('halts'):
        for h in corr.get('halts', []):
            sig = match_finding(findings, h)
            if sig:
                known_lines.append(sig)
            else:
                violations.append(('block hook panicked (chain halt): ' + h['message'][:80], {'failing_input': h['ops'], 'halt': h}))
    if probe:
        for v in probe.get('violations', []):
            violations.append((v['msg'], v))
        for fid, cnt in (probe.get('known') or {}).items():
            hit = [f for f in findings if f.get('id') == fid]
            if hit:
                known_lines.append('KNOWN-FINDING: property=%s %s (%d cases in this run)' % (prop, hit[0]['what'], cnt))
            else:
                violations.append(('finding %s observed but not listed' % fid, {'failing_input': fid}))
    if det:
        for v in det.get('violations', []):
            violations.append((v['msg'], v))

    cov = {
        'obligations': max(1, aud['obligations']), 'discharged': aud['discharged'] if okb else 0,
        'checker_cmd': 'cd lean && lake build Hub.Props.%s && lake env lean .cache/audit/%s.lean (#print axioms)' % (prop, prop),
        'trusted_base': TRUSTED_BASE,
        'theorems': aud['theorems'],
        'evaluations': corr['totals']['ops'] + (probe or {}).get('evaluations', 0),
        'distinct_nontrivial': corr['totals']['distinct'] + (probe or {}).get('distinct', 0),
        'rule': 'T-corr: seeded adaptive histories on the real app replayed on the Lean model; a case is one operation; distinct = distinct (operation kind, normalised outcome text) pairs observed on the implementation' + ((' | probe: ' + probe.get('rule', '')) if probe else ''),
        'samples': corr['distinct_list'][:12] + ((probe or {}).get('samples', [])[:6]),
        'traces_validated_against_impl': corr['totals']['histories'],
        'correspondence': {'histories': corr['totals']['histories'], 'ops': corr['totals']['ops'], 'accept': corr['totals']['accept'],
                           'reject': corr['totals']['reject'], 'halt': corr['totals']['halt'], 'op_kinds': corr['totals']['op_kinds'],
                           'mismatches_total': len(corr['mismatches']), 'mismatches_in_projection': len(rel),
                           'domain_events_observed_on_the_implementation': corr['totals'].get('domain', {}),
                           'monitors_of_property': P.get('monitors', []),
                           'functions_changed_since_model_was_validated': corr.get('changed_functions', []),
                           'search_budget_boosted': corr.get('boosted', False),
                           'implementation_states_loaded_and_monitored': corr['totals'].get('impl_states_monitored', 0),
                           'monitor_hits_total': len(corr['monitor_hits']),
                           'projection': P.get('sections', 'all')},
        'partial': P.get('partial', ''),
        'notes': notes,
    }
    if lc:
        cov['leanchecker'] = lc
    if probe:
        cov['probe'] = {k: v for k, v in probe.items() if k not in ('violations',)}
    if det:
        cov['determinism_reruns'] = {k: v for k, v in det.items() if k not in ('violations',)}
    if txm:
        cov['txmode_crosscheck'] = {k: v for k, v in txm.items() if k not in ('mismatches', 'errors')}
    return finish(prop, tier, seed, cov, violations, known_lines, time.time() - t0)


def match_finding(findings, hit):
    for f in findings:
        if re.search(f.get('signature', '$^'), json.dumps(hit)):
            return 'KNOWN-FINDING: property=%s %s' % (f['property'], f['what'])
    return None


def finish(prop, tier, seed, cov, violations, known_lines, wall):
    for l in sorted(set(known_lines)):
        print(l)
    write_evidence(prop, tier, seed, cov, wall, len(violations), PROPS[prop].get('assumptions', []))
    if violations:
        # prefer a violation that comes with a concrete failing input / history as the replay
        violations.sort(key=lambda v: 0 if (v[1].get('failing_input') or v[1].get('monitor')) else 1)
        msg, body = violations[0]
        ties = [v[1].get('tie') + ': ' + str(v[1].get('detail', ''))[:300] for v in violations if v[1].get('tie')]
        if ties:
            body = dict(body, broken_ties=ties)
        body = dict(body, property=prop, tier=tier, seed=seed, message=msg, all=[v[0] for v in violations])
        found = bool(body.get('failing_input') or body.get('monitor'))
        path = write_replay(prop, seed, body)
        print('VIOLATION property=%s replay=%s%s' % (prop, path, '' if found else ' no-failing-input-found'))
        return 1
    print('OK property=%s tier=%s obligations=%d discharged=%d corr_ops=%d wall=%.0fs' % (prop, tier, cov['obligations'], cov['discharged'], cov['correspondence']['ops'], wall))
    return 0


def run_determinism(tier, seed, th):
    """C10 runtime half: execute the same generated history in fresh processes with different
    GOMAXPROCS (Go map seeds differ per process) and compare the complete output streams, which
    include every state delta, every hub event and the application hash after every block."""
    cdir = os.path.join(CACHE, th, 'det_%s_%d' % (tier, seed))
    summ = os.path.join(cdir, 'summary.json')
    if os.path.exists(summ):
        return json.load(open(summ))
    os.makedirs(cdir, exist_ok=True)
    n = 4 if tier == 'quick' else 18
    blocks = 120 if tier == 'quick' else 400
    res = {'histories': 0, 'lines_compared': 0, 'apphashes_compared': 0, 'violations': [], 'procs': [1, 4, 16]}
    for i in range(n):
        prof = ['sessions', 'lifecycle', 'money', 'gov', 'quota', 'extreme'][i % 6]
        outs = []
        ops = os.path.join(cdir, 'd%d.ops' % i)
        for procs in res['procs']:
            env = dict(os.environ, GOMAXPROCS=str(procs))
            p = subprocess.run([os.path.join(BIN, 'hubsim'), 'gen', '-seed', str(seed * 77 + i), '-blocks', str(blocks), '-profile', prof, '-ops', ops],
                               stdout=subprocess.PIPE, stderr=subprocess.PIPE, env=env, timeout=1800)
            if p.returncode != 0:
                raise Broken('determinism run failed: ' + p.stderr.decode(errors='replace')[-800:])
            outs.append(p.stdout)
        res['histories'] += 1
        lines = outs[0].count(b'\n')
        res['lines_compared'] += lines * (len(outs) - 1)
        res['apphashes_compared'] += outs[0].count(b'\nA apphash=') * (len(outs) - 1)
        for k in range(1, len(outs)):
            if outs[k] != outs[0]:
                a, b = outs[0].split(b'\n'), outs[k].split(b'\n')
                j = next((x for x in range(min(len(a), len(b))) if a[x] != b[x]), min(len(a), len(b)))
                res['violations'].append({'msg': 'same history, different result (GOMAXPROCS %d vs %d)' % (res['procs'][0], res['procs'][k]),
                                          'failing_input': ops, 'line': j, 'run1': a[j][:300].decode(errors='replace') if j < len(a) else '',
                                          'run2': b[j][:300].decode(errors='replace') if j < len(b) else ''})
                break
        if not res['violations']:
            os.remove(ops)
    # the corpus histories as well (fixed inputs; among them several sessions of one subscription
    # pended in one step), each executed in three fresh processes
    for ops in sorted(glob.glob(os.path.join(ROOT, 'corpus', '*.ops'))):
        outs = []
        for procs in res['procs'] * 3:
            with open(ops, 'rb') as fi:
                p = subprocess.run([os.path.join(BIN, 'hubsim'), 'run'], stdin=fi, stdout=subprocess.PIPE, stderr=subprocess.PIPE,
                                   env=dict(os.environ, GOMAXPROCS=str(procs)), timeout=600)
            outs.append(p.stdout)
        res['histories'] += 1
        res['lines_compared'] += outs[0].count(b'\n') * (len(outs) - 1)
        res['apphashes_compared'] += outs[0].count(b'\nA apphash=') * (len(outs) - 1)
        for k in range(1, len(outs)):
            if outs[k] != outs[0]:
                a, b = outs[0].split(b'\n'), outs[k].split(b'\n')
                j = next((x for x in range(min(len(a), len(b))) if a[x] != b[x]), min(len(a), len(b)))
                res['violations'].append({'msg': 'same history, different result (run 1 vs run %d)' % (k + 1),
                                          'failing_input': ops, 'line': j, 'run1': a[j][:300].decode(errors='replace') if j < len(a) else '',
                                          'run2': b[j][:300].decode(errors='replace') if j < len(b) else ''})
                break
    # the same history with the process "restarted" between blocks (`restart`: a new application instance over the
    # same database): nothing the application keeps in memory between blocks may matter. Generated histories of the
    # governance profiles and the corpus histories that change parameters.
    res['restart_histories'] = 0
    def with_restarts(src, dst):
        n = 0
        with open(src) as fi, open(dst, 'w') as fo:
            for line in fi:
                fo.write(line)
                if line.strip() == 'end':
                    n += 1
                    if n % 3 == 0:
                        fo.write('restart\n')
    def strip_restarts(out):
        keep, skip = [], 0
        for l in out.split(b'\n'):
            if l.startswith(b'> restart'):
                skip = 1
                continue
            if skip and l.startswith(b'R '):
                skip = 0
                continue
            keep.append(l)
        return keep
    cands = []
    for i in range(2 if tier == 'quick' else 8):
        ops = os.path.join(cdir, 'r%d.ops' % i)
        prof = ['govdelay', 'gov'][i % 2]
        p = subprocess.run([os.path.join(BIN, 'hubsim'), 'gen', '-seed', str(seed * 91 + i), '-blocks', str(90 if tier == 'quick' else 300), '-profile', prof, '-ops', ops],
                           stdout=subprocess.DEVNULL, stderr=subprocess.PIPE, timeout=1800)
        if p.returncode != 0:
            raise Broken('determinism (restart) generation failed: ' + p.stderr.decode(errors='replace')[-800:])
        cands.append(ops)
    for ops in sorted(glob.glob(os.path.join(ROOT, 'corpus', '*.ops'))):
        if any(l.startswith('gov ') for l in open(ops)):
            cands.append(ops)
    for ops in cands:
        ops2 = os.path.join(cdir, 'restart_' + os.path.basename(ops))
        with_restarts(ops, ops2)
        outs = []
        for f in (ops, ops2):
            with open(f, 'rb') as fi:
                p = subprocess.run([os.path.join(BIN, 'hubsim'), 'run'], stdin=fi, stdout=subprocess.PIPE, stderr=subprocess.PIPE, timeout=900)
            outs.append(p.stdout)
        if b'R reject:restart' in outs[1]:
            raise Broken('restart refused by the harness: ' + ops2)
        a, b = outs[0].split(b'\n'), strip_restarts(outs[1])
        res['restart_histories'] += 1
        res['lines_compared'] += len(a)
        if a != b and len(res['violations']) < 5:
            j = next((x for x in range(min(len(a), len(b))) if a[x] != b[x]), min(len(a), len(b)))
            res['violations'].append({'msg': 'same history, different result after a process restart between blocks',
                                      'failing_input': ops2, 'line': j, 'run1': a[j][:300].decode(errors='replace') if j < len(a) else '',
                                      'run2': b[j][:300].decode(errors='replace') if j < len(b) else ''})
        else:
            os.remove(ops2)
    json.dump(res, open(summ, 'w'), indent=1)
    return res


def run_txmode(seed, th):
    """Thorough tier: cross-check of the harness itself (DESIGN.md section 3.4). Every correspondence run delivers
    transactions in HANDLER MODE - harness/sim/app.go Sim.Deliver re-implements what BaseApp.runTx/runMsgs do for one
    message (ValidateBasic, the routed handler on a branch written only on success, a panic discards it). Here the
    same histories are executed a second time in TX MODE (`hubsim run -tx`, harness/sim/txmode.go): every `tx` whose
    sender's key the harness holds is a signed transaction through the application's own DeliverTx and ante handler.
    tools/txmode.py compares the two output streams operation by operation (result line, hub events, state delta,
    query answers). Histories: the corpus files that register keys, generated histories of the profile `keyed`
    (every actor keyed: the whole history goes through DeliverTx) and a few of the other profiles (two keyed actors
    among eleven: both paths interleaved on one state; `genesis`: across export / re-import).
    A disagreement is a defect of the machinery, not of the code under test: the caller raises Broken."""
    cdir = os.path.join(CACHE, th, 'txmode_%d' % seed)
    summ = os.path.join(cdir, 'summary.json')
    with Lock('txmode'):
        if os.path.exists(summ):
            return json.load(open(summ))
        os.makedirs(cdir, exist_ok=True)
        import txmode
        hubsim = os.path.join(BIN, 'hubsim')
        t0 = time.time()
        files = []
        for f in sorted(glob.glob(os.path.join(ROOT, 'corpus', '*.ops'))):
            with open(f) as fi:
                if any(l.startswith('key ') for l in fi):
                    files.append(f)
        plan = [('keyed', seed * 1000 + 900 + j, 150) for j in range(12)]
        plan += [(p, seed * 1000 + 950 + j, 120) for p in ('sessions', 'genesis', 'extreme') for j in range(2)]
        generated = []
        try:
            from concurrent.futures import ThreadPoolExecutor
            with ThreadPoolExecutor(max_workers=min(8, os.cpu_count() or 4)) as ex:
                generated = list(ex.map(lambda a: txmode.generate(hubsim, cdir, a[0], a[1], a[2]), plan))
            res = txmode.run_all(hubsim, files + generated, jobs=min(8, os.cpu_count() or 4))
        except (RuntimeError, OSError, subprocess.TimeoutExpired) as e:
            raise Broken('tx-mode cross-check failed to run: ' + str(e)[-800:])
        res['histories'] = {'corpus': [os.path.basename(f) for f in files], 'generated': ['%s:%d:%d' % a for a in plan]}
        res['wall_s'] = round(time.time() - t0, 1)
        # keep only the histories that are named by a mismatch or an error
        named = json.dumps(res['mismatches']) + json.dumps(res['errors'])
        for g in generated:
            if g not in named:
                try:
                    os.remove(g)
                except OSError:
                    pass
        json.dump(res, open(summ, 'w'), indent=1)
        return res


def valid_utf8_strings(text):
    for m in re.finditer(r'\bs:([0-9a-f]*)', text):
        try:
            bytes.fromhex(m.group(1)).decode('utf-8')
        except Exception:
            return False
    return True


F7_SIG = re.compile(r"unknown_value_.*for_enum_sentinel\.types\.v1\.Status|can't_unmarshal_Any_nested_proto")
ILLFORMED_ANY = re.compile(r'unable_to_resolve_type_URL|illegal_wireType|unexpected_EOF|proto:_')


def run_probe19(tier, seed, th):
    """C19: type-directed values of every registered hub type through the real codec (binary and
    JSON); the model must produce the same bytes; mutated bytes must decode alike."""
    cdir = os.path.join(CACHE, th, 'probe_C19_%s_%d' % (tier, seed))
    summ = os.path.join(cdir, 'summary.json')
    if os.path.exists(summ):
        return json.load(open(summ))
    os.makedirs(cdir, exist_ok=True)
    n = 6000 if tier == 'quick' else 120000
    res = {'evaluations': 0, 'distinct': 0, 'violations': [], 'samples': [], 'known': {}, 'json_fail_illformed': 0, 'noncanonical': 0,
           'decode_evaluations': 0, 'json_predictions': 0, 'json_trees_compared': 0,
           'rule': 'every registered sentinel.* type, type-directed boundary values, real ProtoCodec Marshal/Unmarshal/MarshalJSON/UnmarshalJSON vs the Lean wire model (bytes equal) and the Lean JSON model (outcome of the JSON round trip predicted, JSON tree of the binary normal form equal); mutated bytes through real Unmarshal vs model decode'}
    types = set()
    for mode in ('enc', 'dec'):
        lines_path = os.path.join(cdir, mode + '.txt')
        args = [os.path.join(BIN, 'probe19'), '-seed', str(seed), '-n', str(n if mode == 'enc' else n // 2)]
        if mode == 'dec':
            args.append('-decode')
        with open(lines_path, 'wb') as f:
            p = subprocess.run(args, stdout=f, stderr=subprocess.DEVNULL, timeout=3600)
        if p.returncode != 0:
            raise Broken('probe19 failed (%s)' % mode)
        model_path = os.path.join(cdir, mode + '.model')
        with open(lines_path, 'rb') as fi, open(model_path, 'wb') as fo:
            p = subprocess.run([hubmodel(), '--probe'], stdin=fi, stdout=fo, stderr=subprocess.PIPE, timeout=3600)
        if p.returncode != 0:
            raise Broken('model probe failed: ' + p.stderr.decode(errors='replace')[-800:])
        with open(lines_path, errors='replace') as fa, open(model_path, errors='replace') as fb:
            for a, b in zip(fa, fb):
                a, b = a.rstrip('\n'), b.strip()
                if mode == 'dec':
                    res['decode_evaluations'] += 1
                    if b != 'ok' and len(res['violations']) < 5:
                        res['violations'].append({'msg': 'model decode and real Unmarshal differ', 'failing_input': a[:600], 'model': b[:300]})
                    continue
                if a.startswith('anytypes'):
                    # header: the sentinel.* messages the interface registry resolves (what an Any may hold)
                    res['anytypes_checked'] = res.get('anytypes_checked', 0) + 1
                    if b != 'ok' and len(res['violations']) < 5:
                        res['violations'].append({'msg': "the model's list of Any-resolvable types differs from the application's interface registry",
                                                  'failing_input': a[:800], 'model': b[:400]})
                    continue
                res['evaluations'] += 1
                m = re.match(r'^pb (\S+) (.*) => (\S+) rt=(\S+) strict=([01]) json_rt=(\S+) json=(\S+)$', a)
                if not m:
                    raise Broken('unparsable probe19 line: ' + a[:200])
                name, text, wire, rt, strict, jrt, rtree = m.groups()
                # model answer: `<hex | err:...> ;; json=<1|0|-> <canonical text of the model's JSON tree | ->`
                mj = re.match(r'^(.*) ;; json=(\S+) (\S+)$', b)
                if not mj:
                    raise Broken('unparsable model answer: ' + b[:200])
                b, pred, mtree = mj.groups()
                types.add(name)
                if len(res['samples']) < 6 and res['evaluations'] % 499 == 1:
                    res['samples'].append({'type': name, 'value': text[:160], 'wire': wire[:80], 'json_rt': jrt[:60], 'json_predicted': pred})
                bad = None
                if b.startswith('err:noncanonical'):
                    res['noncanonical'] += 1
                    if rt == '1' and not wire.startswith('err:'):
                        bad = 'model says non-canonical but the real codec round-trips'
                elif b.startswith('err:'):
                    bad = 'model cannot encode: ' + b[:80]
                elif b != wire:
                    bad = 'model bytes differ from real bytes'
                elif rt != '1':
                    bad = 'real binary round trip fails on a canonical value (rt=%s)' % rt
                # JSON: the model PREDICTS the outcome of MarshalJSON then UnmarshalJSON (Hub.SDK.ProtoJson,
                # theorem Hub.Props.C19Json.json_roundtrip_iff), also for values the binary model calls non-canonical
                if bad is None and pred in ('0', '1'):
                    res['json_predictions'] += 1
                    if (pred == '1') != (jrt == '1'):
                        bad = 'model predicts JSON round trip %s, real codec json_rt=%s' % (
                            'succeeds' if pred == '1' else 'fails', jrt[:120])
                    elif rtree != '-' and not rtree.startswith('err:'):
                        res['json_trees_compared'] += 1
                        if rtree != mtree:
                            k = next((x for x in range(min(len(rtree), len(mtree))) if rtree[x] != mtree[x]), min(len(rtree), len(mtree)))
                            bad = 'model JSON tree differs from the real JSON at %d: real …%s model …%s' % (
                                k, rtree[max(0, k - 40):k + 40], mtree[max(0, k - 40):k + 40])
                elif bad is None and not b.startswith('err:noncanonical'):
                    bad = 'model gives no JSON prediction: ' + pred
                if bad is None and jrt != '1' and not b.startswith('err:noncanonical'):
                    # a failure the model predicted: still a failure of C19 — reported under its finding
                    if F7_SIG.search(jrt):
                        res['known']['F7'] = res['known'].get('F7', 0) + 1
                    elif (jrt == '0' and not valid_utf8_strings(text)) or ILLFORMED_ANY.search(jrt):
                        res['json_fail_illformed'] += 1
                    else:
                        bad = 'JSON round trip fails (as the model predicts): ' + jrt[:120]
                if bad and len(res['violations']) < 5:
                    res['violations'].append({'msg': bad, 'failing_input': a[:800], 'model': b[:200]})
        if not res['violations']:
            os.remove(lines_path)
            os.remove(model_path)
    # the parameter-store channel: SetParams (ParamSetPairs, one amino-JSON value per key) then GetParams
    p = subprocess.run([os.path.join(BIN, 'hubsim'), 'paramrt', '-seed', str(seed), '-n', '200' if tier == 'quick' else '5000'],
                       stdout=subprocess.PIPE, stderr=subprocess.PIPE, timeout=3600)
    if p.returncode != 0:
        raise Broken('paramrt failed: ' + p.stderr.decode(errors='replace')[-500:])
    res['param_store_roundtrips'] = 0
    for l in p.stdout.decode(errors='replace').split('\n'):
        if l.startswith('prt '):
            res['param_store_roundtrips'] += 1
            res['evaluations'] += 1
            if ' MISMATCH ' in l and len(res['violations']) < 5:
                res['violations'].append({'msg': 'parameter set changed by the store round trip (SetParams then GetParams)', 'failing_input': l[:800]})
    res['distinct'] = len(types)
    json.dump(res, open(summ, 'w'), indent=1)
    return res


def run_probe(prop, tier, seed, th):
    if prop == 'C19':
        return run_probe19(tier, seed, th)
    if prop in ('C02', 'C05'):
        prop = 'C16'   # pricing and settlement rest on the metering arithmetic: the same probe (afb / prop cases)
    cdir = os.path.join(CACHE, th, 'probe_%s_%s_%d' % (prop, tier, seed))
    summ = os.path.join(cdir, 'summary.json')
    if os.path.exists(summ):
        return json.load(open(summ))
    os.makedirs(cdir, exist_ok=True)
    n = 20000 if tier == 'quick' else 1000000
    probe_bin = os.path.join(BIN, 'probe')
    cases = os.path.join(cdir, 'cases.txt')
    impl = os.path.join(cdir, 'impl.txt')
    model = os.path.join(cdir, 'model.txt')
    with open(impl, 'wb') as f:
        p = subprocess.run([probe_bin, '-prop', prop, '-seed', str(seed), '-n', str(n), '-cases', cases], stdout=f, stderr=subprocess.PIPE, timeout=3600)
    if p.returncode != 0:
        raise Broken('probe failed: ' + p.stderr.decode(errors='replace')[-1500:])
    with open(cases, 'rb') as fi, open(model, 'wb') as fo:
        p = subprocess.run([hubmodel(), '--probe'], stdin=fi, stdout=fo, stderr=subprocess.PIPE, timeout=3600)
    if p.returncode != 0:
        raise Broken('model probe failed: ' + p.stderr.decode(errors='replace')[-1500:])
    res = {'evaluations': 0, 'distinct': 0, 'violations': [], 'samples': [], 'rule': 'pure-function differential on boundary-biased inputs: the real functions against the Lean SPECIFICATION inside the domain of the exactness theorems (chargeSpec, shareSpec, ceilToSpec; Hub/SDK/MeterSpec.lean), against the regenerated definitions over the hand-written sdkmath model outside it'}
    kinds = set()
    with open(cases) as fc, open(impl) as fi, open(model) as fm:
        for c, a, b in zip(fc, fi, fm):
            res['evaluations'] += 1
            c, a, b = c.strip(), a.strip(), b.strip()
            kinds.add((c.split()[0], a.split()[0] if a else ''))
            if len(res['samples']) < 6 and res['evaluations'] % 997 == 1:
                res['samples'].append({'case': c[:200], 'impl': a[:120]})
            if a != b and len(res['violations']) < 5:
                res['violations'].append({'msg': 'probe disagreement on ' + c.split()[0], 'failing_input': c, 'impl': a, 'model_spec': b})
    res['distinct'] = len(kinds)
    json.dump(res, open(summ, 'w'), indent=1)
    for f in (cases, impl, model):
        if not res['violations']:
            os.remove(f)
    return res


def setup():
    t0 = time.time()
    ok, msg = regenerate()
    if not ok:
        raise Broken('translator: ' + msg)
    okb, out = lake_build(['Hub', 'hubmodel'])
    if not okb:
        raise Broken('lake build: ' + out[-3000:])
    okh, msg = build_harness()
    if not okh:
        raise Broken('harness: ' + msg)
    log('setup done in %.0fs' % (time.time() - t0))
    return 0


def main():
    ap = argparse.ArgumentParser()
    ap.add_argument('--setup', action='store_true')
    ap.add_argument('--property')
    ap.add_argument('--tier', default=os.environ.get('VERIF_TIER', 'quick'))
    ap.add_argument('--replay')
    a = ap.parse_args()
    seed = int(os.environ.get('VERIF_SEED', '1'))
    try:
        if a.setup:
            return setup()
        if a.replay:
            # rebuild the harness (and the driver) from /repo's current tree first: a replay is about this tree
            okh, hmsg = build_harness()
            if not okh:
                raise Broken('harness does not build against /repo: ' + hmsg)
            okd, dout = lake_build(['hubmodel'])
            if not okd:
                raise Broken('model driver does not build: ' + dout[-1500:])
            from replay import replay
            return replay(a.property, a.replay)
        if a.property not in PROPS:
            print('unknown property', a.property, file=sys.stderr)
            return 2
        return check_property(a.property, a.tier, seed)
    except Broken as e:
        print('BROKEN: ' + str(e), file=sys.stderr)
        return 2
    except subprocess.TimeoutExpired as e:
        print('BROKEN: timeout ' + str(e), file=sys.stderr)
        return 2


if __name__ == '__main__':
    sys.exit(main())
